//go:build verif && go1.25

// Package engine is the deterministic simulator ("cffsim") for uber-go/cff.
//
// The real scheduler (built with -tags verif) runs inside a testing/synctest
// bubble. Every goroutine parks at every hook; the controller (the bubble's
// root goroutine) waits for quiescence with synctest.Wait, picks exactly one
// parked goroutine from the run's choice source, grants it, and lets fake
// time advance to the next step boundary. Parking uses only time.Sleep on the
// fake clock and plain memory accessed from //go:norace functions, so the
// simulator adds no happens-before edge the race detector could see.
package engine

import (
	"context"
	"fmt"
	"math/rand"
	"runtime"
	"strings"
	"sync"
	"testing"
	"testing/synctest"
	"time"

	"go.uber.org/cff/scheduler"
)

// Q is the step quantum of fake time. Grants take effect only at multiples
// of Q; every timer in the system has a period/deadline with an odd residue
// mod Q and therefore fires strictly between boundaries.
const Q = 1 << 20

// MaxStates caps the per-process set of distinct abstract states (a coverage
// measure only); beyond it the set saturates and the count is a lower bound.
const MaxStates = 250000

const (
	MaxSlots  = 640
	MaxScheds = 16
	MaxFlags  = 64
)

// Harness hook sites (scheduler sites are < 100).
const (
	HsStart = 100 + iota // first statement of a harness goroutine
	HsBody               // a user function body was entered
	HsStep               // a step inside a user function body
	HsHeld               // parked until a flag/counter condition holds
	HsAfter              // directly after an action that may wake others
	HsRet                // a caller returned from Wait / a directive
	HsArg                // argument probe
	HsMisc
	HsCtxErr // inside Err() of a user-defined context (a synchronisation point like any other)
)

// Kind of goroutine.
const (
	KUnknown = iota
	KWorker
	KLoop
	KSpawner
	KCaller
)

var kindNames = [...]string{"?", "worker", "loop", "spawner", "caller"}

// Hold conditions for HsHeld parks.
const (
	HoldNone    = iota
	HoldFlag    // releasable once Flags[arg]
	HoldCounter // releasable once Counters[arg] >= arg2
	HoldQuiet   // releasable once nothing else can move (only loops taking ticks, or nothing at all)
)

// Slot is the simulator's record of one goroutine. A slot is written only by
// its own goroutine and by the controller while that goroutine is blocked.
type Slot struct {
	goid       uint64
	Kind       int
	Key        uintptr
	pendingRaw uintptr
	Home       uintptr // workers: the scheduler they belong to (Key follows the scheduler whose hooks the goroutine passed last, which differs while a worker runs a nested directive)
	parked     bool
	granted    bool
	Site       int
	LastSite   int
	Exited     bool
	Foreign    bool
	inHook     bool // inside a scheduler hook that calls back into user code
	Tag        int
	lastRun    int // step of the last grant (fair default order)

	holdKind, holdArg, holdArg2 int

	// loop select
	Info         scheduler.VerifSelectInfo
	armRaw       uint32
	armExhausted bool
	armRecPos    int
	armPick      int // index of the chosen arm among the ready arms
	armsReady    int
	mask         int
	ArmFired     int
	// wait select
	WaitBoth bool
}

type schedState struct {
	key        uintptr // number of the scheduler within the run (1, 2, ...)
	raw        uintptr // address of its ready channel
	killed     bool    // loop was granted at LPreKill: readyc and finishedc get closed
	waitClosed bool    // Wait closed enqueuec
	loopSlot   int
	creator    int // slot of the goroutine that called Config.New
	creatorTag int // that goroutine's tag at the time
	// probes written by this scheduler's loop only
	dispatched, maxOngoing, ticks, ticksWhileReady, drained, doneFullBlocked int
	conc                                                                     int
}

// Probe indices (reach counters, per run).
const (
	PrOverDispatch    = iota // loop's ongoing exceeded the number of workers
	PrDoneFull               // donec full at some loop select
	PrDrainSwallow           // an enqueue was swallowed by the drain loop
	PrWaitCtxLoopLive        // Wait left through ctx.Done while the loop was alive
	PrWaitBoth               // both Wait arms ready
	PrWorkerDied             // a worker died and was replaced
	PrTickWhileReady         // tick taken while the ready list was non-empty
	PrMultiArm               // a loop select with >= 2 ready arms
	PrIdleAdvance            // time advanced with nothing releasable
	PrWaitTookDone           // both Wait arms ready and the ctx.Done arm was taken
	PrCtxErrYield            // a goroutine was parked inside Err() of a user-defined context
	NumProbes
)

var ProbeNames = [...]string{"over_dispatch", "donec_full", "drain_swallowed_enqueue", "wait_left_by_ctx_loop_alive", "wait_both_arms_ready", "worker_died_replaced", "tick_while_ready", "select_multi_arm", "idle_time_advance", "wait_both_arms_ready_took_ctx_done", "parked_inside_user_context_Err"}

// Sim is one simulated execution.
type Sim struct {
	slots  [MaxSlots]Slot
	nslots int

	Ch  *Chooser
	Pol *Policy

	Steps      int
	Budget     int // hard cap on steps
	FairAfter  int // after this many steps: round-robin, unrecorded
	IdleMax    int // boundaries to wait when only timers can make progress
	abort      bool
	Invalid    string
	OverBudget bool

	Seq      int
	Flags    [MaxFlags]bool
	Counters [MaxFlags]int

	// TimerUntil: fake time (UnixNano) until which harness timers are pending.
	TimerUntil int64

	sched  [MaxScheds]schedState
	nsched int

	Probes [NumProbes]int

	hash         uint64
	KeepTrace    bool
	Trace        []string
	States       map[uint64]struct{} // distinct abstract states (may be shared across runs)
	baselineG    int
	MaxLiveG     int // max over steps of NumGoroutine delta
	MaxSlotsLive int
	// MaxUnregistered: max over sampled steps of goroutines alive in the
	// bubble that are unknown to the simulator (never reached a hook). Counted
	// exactly from a full goroutine dump every CountEvery steps.
	MaxUnregistered int
	CountEvery      int
	stackBuf        []byte
	rr              int
	rrArm           int
	newcomers       int
	idleStreak      int
	lastGrant       int
	// Inspect is called by the controller after every step's quiescence.
	Inspect           func(s *Sim)
	deadlockRecovered bool
}

var cur *Sim

// Install points the scheduler's hooks at the simulator.
func Install() {
	scheduler.VerifYield = func(site int, key uintptr, j *scheduler.ScheduledJob) {
		if c := cur; c != nil {
			c.hookYield(site, key)
		}
	}
	scheduler.VerifLoopSelect = func(key uintptr, peek func() scheduler.VerifSelectInfo) int {
		if c := cur; c != nil {
			return c.hookLoopSelect(key, peek)
		}
		return 0
	}
	scheduler.VerifArm = func(key uintptr, arm int, j *scheduler.ScheduledJob) {
		if c := cur; c != nil {
			c.hookArm(key, arm)
		}
	}
	scheduler.VerifWaitSelect = func(key uintptr, ctxDone func() bool) int {
		if c := cur; c != nil {
			return c.hookWaitSelect(key, ctxDone)
		}
		return scheduler.VerifWaitFree
	}
}

//go:norace
func sleepToBoundary() {
	now := time.Now().UnixNano()
	time.Sleep(time.Duration(Q - now%Q))
}

//go:norace
func goid() uint64 {
	var buf [40]byte
	n := runtime.Stack(buf[:], false)
	// "goroutine 123 ["
	var id uint64
	for i := 10; i < n; i++ {
		c := buf[i]
		if c < '0' || c > '9' {
			break
		}
		id = id*10 + uint64(c-'0')
	}
	return id
}

//go:norace
func (s *Sim) lookup() *Slot {
	id := goid()
	for i := s.nslots - 1; i >= 0; i-- {
		if s.slots[i].goid == id {
			return &s.slots[i]
		}
	}
	i := s.nslots
	if i >= MaxSlots {
		s.Invalid = "too many goroutines"
		s.abort = true
		return &s.slots[MaxSlots-1]
	}
	s.nslots++
	s.newcomers++
	s.slots[i] = Slot{goid: id}
	return &s.slots[i]
}

//go:norace
func (s *Sim) park(sl *Slot, site int) {
	if s.abort {
		return
	}
	sl.Site = site
	sl.parked = true
	for !sl.granted && !s.abort {
		sleepToBoundary()
	}
	sl.granted = false
	sl.parked = false
	sl.LastSite = site
}

// The scheduler's hooks identify a scheduler by the address of its ready
// channel. Addresses are reused once a scheduler has been collected, and when
// that happens is the garbage collector's business, so the simulator never
// keys anything on them: newSched (called at the first hook of a new
// scheduler, New:after-go-spawner) gives every scheduler a number of its own,
// and xlate maps an address to the newest scheduler that had it.
//
//go:norace
func (s *Sim) newSched(raw uintptr) uintptr {
	if s.nsched >= MaxScheds {
		s.Invalid = "too many schedulers"
		s.abort = true
		return s.sched[0].key
	}
	s.sched[s.nsched] = schedState{key: uintptr(s.nsched + 1), raw: raw, loopSlot: -1}
	s.nsched++
	return s.sched[s.nsched-1].key
}

//go:norace
func (s *Sim) xlate(raw uintptr) uintptr {
	for i := s.nsched - 1; i >= 0; i-- {
		if s.sched[i].raw == raw {
			return s.sched[i].key
		}
	}
	return s.newSched(raw)
}

//go:norace
func (s *Sim) schedOf(key uintptr) *schedState {
	for i := 0; i < s.nsched; i++ {
		if s.sched[i].key == key {
			return &s.sched[i]
		}
	}
	if s.nsched >= MaxScheds {
		s.Invalid = "too many schedulers"
		s.abort = true
		return &s.sched[0]
	}
	s.Invalid = "unknown scheduler"
	s.abort = true
	return &s.sched[0]
}

//go:norace
func (s *Sim) hookYield(site int, key uintptr) {
	if s.abort {
		return
	}
	sl := s.lookup()
	raw := key
	switch {
	case raw == 0:
	case site == scheduler.VerifNewSpawned:
		key = s.newSched(raw)
	case site == scheduler.VerifSpStart:
		// the spawner may reach its first hook before the goroutine that started it
		// has announced the scheduler: resolve the address once released
		sl.pendingRaw, key = raw, 0
	default:
		key = s.xlate(raw)
	}
	if sl.Kind == KUnknown {
		switch site {
		case scheduler.VerifWStart:
			sl.Kind = KWorker
			sl.Home = key
		case scheduler.VerifLStart:
			sl.Kind = KLoop
		case scheduler.VerifSpStart:
			sl.Kind = KSpawner
		default:
			sl.Kind = KCaller
		}
	}
	if key != 0 {
		sl.Key = key
	}
	if site == scheduler.VerifNewSpawned {
		// register in creation order (the caller is the only goroutine running)
		st := s.schedOf(key)
		for i := 0; i < s.nslots; i++ {
			if &s.slots[i] == sl {
				st.creator = i
				st.creatorTag = sl.Tag
			}
		}
	}
	s.park(sl, site)
	if s.abort {
		return
	}
	if sl.pendingRaw != 0 {
		key = s.xlate(sl.pendingRaw)
		sl.Key, sl.pendingRaw = key, 0
	}
	switch site {
	case scheduler.VerifWExit, scheduler.VerifLExit:
		sl.Exited = true
	case scheduler.VerifWRespawned:
		sl.Exited = true
		s.Probes[PrWorkerDied]++
	case scheduler.VerifLPreKill:
		s.schedOf(key).killed = true
	case scheduler.VerifWaitClose:
		s.schedOf(key).waitClosed = true
	case scheduler.VerifLDrain:
		s.Probes[PrDrainSwallow]++
	case scheduler.VerifLStart:
		st := s.schedOf(key)
		for i := 0; i < s.nslots; i++ {
			if &s.slots[i] == sl {
				st.loopSlot = i
			}
		}
	}
}

//go:norace
func (s *Sim) idleWorkers(key uintptr) int {
	n := 0
	for i := 0; i < s.nslots; i++ {
		o := &s.slots[i]
		if o.Kind == KWorker && o.Home == key && !o.parked && !o.Exited &&
			(o.LastSite == scheduler.VerifWStart || o.LastSite == scheduler.VerifWNext) {
			n++
		}
	}
	return n
}

// Workers returns the number of live worker goroutines of a scheduler.
//
//go:norace
func (s *Sim) liveOf(key uintptr) (workers, others int) {
	for i := 0; i < s.nslots; i++ {
		o := &s.slots[i]
		if o.Exited {
			continue
		}
		if o.Kind == KWorker {
			if o.Home == key {
				workers++
			}
			continue
		}
		if o.Key != key {
			continue
		}
		switch o.Kind {
		case KWorker:
			workers++
		case KLoop:
			others++
		case KSpawner:
			if o.parked {
				others++
			}
		}
	}
	return
}

var armBits = [4]int{scheduler.VerifArmDispatch, scheduler.VerifArmEnqueue, scheduler.VerifArmDone, scheduler.VerifArmTick}

//go:norace
func (s *Sim) hookLoopSelect(key uintptr, peek func() scheduler.VerifSelectInfo) int {
	if s.abort {
		return 0
	}
	sl := s.lookup()
	key = s.xlate(key)
	sl.Key = key
	s.park(sl, scheduler.VerifLSelect)
	if s.abort {
		return 0
	}
	info := peek()
	sl.Info = info
	st := s.schedOf(key)
	var arms [4]int
	n := 0
	ready := 0
	if info.HasReady && s.idleWorkers(key) > 0 {
		arms[n] = 0
		n++
		ready |= armBits[0]
	}
	if info.EnqOpen && (info.LenEnq > 0 || st.waitClosed) {
		arms[n] = 1
		n++
		ready |= armBits[1]
	}
	if info.LenDone > 0 {
		arms[n] = 2
		n++
		ready |= armBits[2]
	}
	if info.HasTick && info.TickDue {
		arms[n] = 3
		n++
		ready |= armBits[3]
	}
	sl.armsReady = ready
	st.conc = info.CapDone
	if info.Ongoing > st.maxOngoing {
		st.maxOngoing = info.Ongoing
	}
	if info.Ongoing > info.CapDone {
		s.Probes[PrOverDispatch]++
	}
	if info.LenDone >= info.CapDone {
		s.Probes[PrDoneFull]++
	}
	if n >= 2 {
		s.Probes[PrMultiArm]++
	}
	if n == 0 {
		sl.mask = 0
		return 0
	}
	var pick int
	sl.armPick = 0
	if s.Steps > s.FairAfter {
		s.rrArm++
		pick = arms[s.rrArm%n]
	} else if s.Ch.Replaying && sl.armExhausted {
		s.rrArm++
		sl.armPick = s.rrArm % n
		pick = arms[sl.armPick]
	} else if s.Ch.Replaying {
		sl.armPick = int(sl.armRaw % uint32(n))
		pick = arms[sl.armPick]
	} else {
		// weighted pick from the raw value drawn by the controller
		tot := 0
		for i := 0; i < n; i++ {
			tot += s.Pol.ArmW[arms[i]]
		}
		r := int(sl.armRaw % uint32(tot))
		pick, sl.armPick = arms[n-1], n-1
		for i := 0; i < n; i++ {
			r -= s.Pol.ArmW[arms[i]]
			if r < 0 {
				pick, sl.armPick = arms[i], i
				break
			}
		}
	}
	sl.mask = armBits[pick]
	return sl.mask
}

//go:norace
func (s *Sim) hookArm(key uintptr, arm int) {
	if s.abort {
		return
	}
	sl := s.lookup()
	key = s.xlate(key)
	sl.ArmFired = arm
	if sl.mask != 0 && sl.mask != arm {
		s.Invalid = fmt.Sprintf("arm %d fired under mask %d", arm, sl.mask)
	}
	sl.mask = 0
	st := s.schedOf(key)
	switch arm {
	case scheduler.VerifArmDispatch:
		st.dispatched++
	case scheduler.VerifArmTick:
		st.ticks++
		if sl.Info.Ready > 0 {
			s.Probes[PrTickWhileReady]++
		}
	}
}

//go:norace
func (s *Sim) hookWaitSelect(key uintptr, ctxDone func() bool) int {
	if s.abort {
		return scheduler.VerifWaitFree
	}
	sl := s.lookup()
	key = s.xlate(key)
	sl.Key = key
	s.park(sl, scheduler.VerifWaitSelect_)
	if s.abort {
		return scheduler.VerifWaitFree
	}
	sl.inHook = true // ctxDone calls Err(): no second park from inside this hook
	done := ctxDone()
	sl.inHook = false
	fin := s.schedOf(key).killed
	sl.WaitBoth = done && fin
	sl.armPick = 0
	if done && !fin {
		s.Probes[PrWaitCtxLoopLive]++
	}
	if !(done && fin) {
		return scheduler.VerifWaitFree
	}
	// both arms ready: the choice is the simulator's (0: finished arm, 1: ctx.Done arm)
	s.Probes[PrWaitBoth]++
	if s.Steps <= s.FairAfter && !sl.armExhausted {
		sl.armPick = int(sl.armRaw % 2)
	}
	if sl.armPick == 1 {
		s.Probes[PrWaitTookDone]++
		return scheduler.VerifWaitHideFinished
	}
	return scheduler.VerifWaitHideDone
}

// ---- harness-side API (called from bubble goroutines) ----

// Yield parks the calling harness goroutine at a harness site.
//
//go:norace
func (s *Sim) Yield(site int) {
	if s.abort {
		return
	}
	sl := s.lookup()
	if sl.Kind == KUnknown {
		sl.Kind = KCaller
		// A goroutine the harness did not start (sim.Go, or a first hook at
		// HsStart) and the scheduler's hooks do not know: somebody else's.
		sl.Foreign = site != HsStart
	}
	s.park(sl, site)
}

// ForeignLive counts live goroutines that reached a harness hook without
// having been started by the harness or by the scheduler's own spawn sites
// (e.g. a goroutine started per emitted state report).
//
//go:norace
func (s *Sim) ForeignLive() int {
	n := 0
	for i := 0; i < s.nslots; i++ {
		if o := &s.slots[i]; o.Foreign && !o.Exited {
			n++
		}
	}
	return n
}

// Hold parks the caller until the condition holds (and it is then chosen).
//
//go:norace
func (s *Sim) Hold(kind, arg, arg2 int) {
	if s.abort {
		return
	}
	sl := s.lookup()
	if sl.Kind == KUnknown {
		sl.Kind = KCaller
	}
	sl.holdKind, sl.holdArg, sl.holdArg2 = kind, arg, arg2
	s.park(sl, HsHeld)
	sl.holdKind = HoldNone
}

//go:norace
func (s *Sim) SetFlag(i int) { s.Flags[i] = true }

//go:norace
func (s *Sim) Flag(i int) bool { return s.Flags[i] }

//go:norace
func (s *Sim) AddCounter(i, d int) int { s.Counters[i] += d; return s.Counters[i] }

//go:norace
func (s *Sim) NextSeq() int { s.Seq++; return s.Seq }

//go:norace
func (s *Sim) Aborted() bool { return s.abort }

// SlotIndex returns the stable index of the calling goroutine.
//
//go:norace
func (s *Sim) SlotIndex() int {
	id := goid()
	for i := s.nslots - 1; i >= 0; i-- {
		if s.slots[i].goid == id {
			return i
		}
	}
	return -1
}

// Exit marks the calling harness goroutine as finished.
//
//go:norace
func (s *Sim) Exit() { s.markExited() }

// SetTimerUntil tells the controller that a harness timer is pending until
// the given fake time.
//
//go:norace
func (s *Sim) SetTimerUntil(t int64) {
	if t > s.TimerUntil {
		s.TimerUntil = t
	}
}

// AddIdleMax raises the number of consecutive idle boundaries tolerated.
//
//go:norace
func (s *Sim) AddIdleMax(n int) { s.IdleMax += n }

// AdvanceIdle lets k step boundaries pass without releasing anybody.
//
//go:norace
func (s *Sim) AdvanceIdle(k int) {
	for i := 0; i < k; i++ {
		sleepToBoundary()
		synctest.Wait()
	}
}

// Rng exposes the search PRNG (nil when replaying).
func (c *Chooser) Rng() *rand.Rand { return c.rng }

//go:norace
func (s *Sim) markExited() {
	sl := s.lookup()
	sl.Exited = true
}

// SwapTag sets the calling goroutine's tag (which execution it is currently
// the caller of) and returns the previous one.
//
//go:norace
func (s *Sim) SwapTag(tag int) int {
	sl := s.lookup()
	old := sl.Tag
	sl.Tag = tag
	return old
}

//go:norace
func (s *Sim) setTag(tag int) {
	sl := s.lookup()
	sl.Kind = KCaller
	sl.Tag = tag
}

// Go starts a harness goroutine in the bubble and waits until it is parked at
// its first hook, so that slot numbers are assigned in a schedule-independent
// order. Must be called by the controller.
func (s *Sim) Go(tag int, f func()) {
	go func() {
		s.setTag(tag)
		s.Yield(HsStart)
		f()
		s.markExited()
	}()
	synctest.Wait()
	s.newcomers = 0
}

// ---- controller ----

//go:norace
func (s *Sim) releasable(sl *Slot) bool {
	if !sl.parked {
		return false
	}
	switch sl.holdKind {
	case HoldFlag:
		return s.Flags[sl.holdArg]
	case HoldCounter:
		return s.Counters[sl.holdArg] >= sl.holdArg2
	case HoldQuiet:
		return false // step() releases it when everybody else has come to rest
	}
	return true
}

//go:norace
func (s *Sim) mix(v uint64) {
	h := s.hash
	for i := 0; i < 8; i++ {
		h ^= v & 0xff
		h *= 1099511628211
		v >>= 8
	}
	s.hash = h
}

// Hash of the trace so far.
func (s *Sim) Hash() uint64 { return s.hash }

//go:norace
func (s *Sim) abstractState() uint64 {
	h := uint64(14695981039346656037)
	mixb := func(v uint64) {
		h ^= v
		h *= 1099511628211
	}
	// multiset of (kind, site, parked) — order independent of slot numbers
	var cnt [8][128]uint8
	for i := 0; i < s.nslots; i++ {
		o := &s.slots[i]
		if o.Exited {
			continue
		}
		site := o.LastSite
		if o.parked {
			site = o.Site
		}
		if site >= 100 {
			site = site - 100 + 40
		}
		p := 0
		if o.parked {
			p = 4
		}
		cnt[(o.Kind&3)+p][site&127]++
	}
	for k := 0; k < 8; k++ {
		for st := 0; st < 128; st++ {
			if c := cnt[k][st]; c != 0 {
				mixb(uint64(k)<<16 | uint64(st)<<8 | uint64(c))
			}
		}
	}
	for i := 0; i < s.nsched; i++ {
		st := &s.sched[i]
		if st.loopSlot >= 0 {
			in := &s.slots[st.loopSlot].Info
			clamp := func(v int) uint64 {
				if v > 6 {
					v = 6
				}
				if v < 0 {
					v = 7
				}
				return uint64(v)
			}
			mixb(clamp(in.LenDone)<<20 | clamp(in.LenEnq)<<16 | clamp(in.Ready)<<12 | clamp(in.Ongoing)<<8 | clamp(in.Pending)<<4 | clamp(in.Waiting))
		}
		b := uint64(0)
		if st.killed {
			b |= 1
		}
		if st.waitClosed {
			b |= 2
		}
		mixb(b)
	}
	return h
}

// countBubble counts the goroutines of this bubble from a goroutine dump
// (headers carry "synctest bubble N") and compares with the slot table. The
// bubble always contains three infrastructure goroutines: the controller,
// synctest's test wrapper and the goroutine that called synctest.Test.
//
//go:norace
func (s *Sim) countBubble() {
	if s.stackBuf == nil {
		s.stackBuf = make([]byte, 4<<20)
	}
	n := runtime.Stack(s.stackBuf, true)
	buf := s.stackBuf[:n]
	// own bubble id: first header is the calling goroutine
	id := bubbleTag(buf)
	if id == "" {
		return
	}
	total := strings.Count(string(buf), id)
	live := 0
	for i := 0; i < s.nslots; i++ {
		o := &s.slots[i]
		if !(o.Exited || (o.Kind == KSpawner && !o.parked)) {
			live++
		}
	}
	if x := total - 3 - live; x > s.MaxUnregistered {
		s.MaxUnregistered = x
	}
}

func bubbleTag(buf []byte) string {
	const key = "synctest bubble "
	i := strings.Index(string(buf[:min(len(buf), 200)]), key)
	if i < 0 {
		return ""
	}
	j := i + len(key)
	for j < len(buf) && buf[j] >= '0' && buf[j] <= '9' {
		j++
	}
	return string(buf[i:j]) + "]"
}

// lruPick is the fair default: the releasable goroutine that has waited
// longest (ties: lowest slot). Used after FairAfter and when a replayed
// choice list is exhausted.
//
//go:norace
func (s *Sim) lruPick(cand []int) int {
	best := 0
	for i, c := range cand {
		if s.slots[c].lastRun < s.slots[cand[best]].lastRun {
			best = i
		}
	}
	return best
}

// finaliseLast completes the trace entry of the previous grant: the arm a
// loop took, and the policy-independent form of that decision.
//
//go:norace
func (s *Sim) finaliseLast() {
	if s.lastGrant < 0 {
		return
	}
	lg := &s.slots[s.lastGrant]
	s.lastGrant = -1
	if lg.LastSite == scheduler.VerifWaitSelect_ {
		// record the decision in its policy-independent form
		s.mix(uint64(lg.armPick)<<4 | 0xa)
		if lg.armRecPos >= 0 && lg.armRecPos < len(s.Ch.Rec) {
			s.Ch.Rec[lg.armRecPos] = uint32(lg.armPick)
		}
		if lg.WaitBoth {
			s.Ch.Nontrivial++
			if s.KeepTrace {
				s.Trace = append(s.Trace, fmt.Sprintf("      Wait select: both arms ready, took %s", [...]string{"finished", "ctx.Done"}[lg.armPick]))
			}
		}
		return
	}
	if lg.LastSite != scheduler.VerifLSelect {
		return
	}
	s.mix(uint64(lg.ArmFired)<<8 | uint64(lg.armsReady))
	if lg.armRecPos >= 0 && lg.armRecPos < len(s.Ch.Rec) {
		s.Ch.Rec[lg.armRecPos] = uint32(lg.armPick)
	}
	if lg.armsReady&(lg.armsReady-1) != 0 {
		s.Ch.Nontrivial++
	}
	if s.KeepTrace {
		s.Trace = append(s.Trace, fmt.Sprintf("      loop select: ready=%s took=%s info=%+v", armSet(lg.armsReady), armSet(lg.ArmFired), lg.Info))
	}
}

// step performs one controller step. It returns false when the system is
// quiescent: nothing is releasable and no timer can change that.
//
//go:norace
func (s *Sim) step() bool {
	synctest.Wait()
	if s.newcomers > 1 {
		s.Invalid = fmt.Sprintf("%d goroutines appeared in one step", s.newcomers)
	}
	s.newcomers = 0
	if s.CountEvery > 0 && s.Steps%s.CountEvery == 0 {
		s.countBubble()
	}
	s.finaliseLast()
	if s.Inspect != nil {
		s.Inspect(s)
	}
	if s.States != nil && len(s.States) < MaxStates {
		s.States[s.abstractState()] = struct{}{}
	}
	if s.Invalid != "" || s.abort {
		return false
	}
	var cand [MaxSlots]int
	n := 0
	onlyLoops := true
	for i := 0; i < s.nslots; i++ {
		if s.releasable(&s.slots[i]) {
			cand[n] = i
			n++
			if s.slots[i].Site != scheduler.VerifLSelect {
				onlyLoops = false
			}
		}
	}
	if q := s.quietHolder(); q >= 0 {
		quiet := n == 0
		if !quiet && onlyLoops {
			quiet = true
			for i := 0; i < n; i++ {
				o := &s.slots[cand[i]]
				if o.LastSite != scheduler.VerifLSelect || o.armsReady&^scheduler.VerifArmTick != 0 {
					quiet = false
				}
			}
		}
		if quiet {
			cand[0], n, onlyLoops = q, 1, false
		}
	}
	if n == 0 {
		// Only time can make progress: a pending harness timer, or a ticker
		// waking a loop that is blocked in its select.
		if s.idleStreak < s.IdleMax && (time.Now().UnixNano() <= s.TimerUntil || s.tickerLoopBlocked()) {
			s.idleStreak++
			s.Probes[PrIdleAdvance]++
			s.lastGrant = -1
			s.mix(0xfffe)
			if s.KeepTrace {
				s.Trace = append(s.Trace, fmt.Sprintf("%5d idle (time advances)", s.Steps))
			}
			s.Steps++
			sleepToBoundary()
			return true
		}
		return false
	}
	if onlyLoops && time.Now().UnixNano() > s.TimerUntil {
		// Only loops can move. If all they can do is take ticks, nothing will
		// ever change again: treat as quiescent after a few rounds.
		tickOnly := true
		for i := 0; i < n; i++ {
			o := &s.slots[cand[i]]
			if o.LastSite != scheduler.VerifLSelect || o.armsReady&^scheduler.VerifArmTick != 0 {
				tickOnly = false
			}
		}
		if tickOnly {
			s.idleStreak++
			if s.idleStreak > 3*n+3 {
				return false
			}
		} else {
			s.idleStreak = 0
		}
	} else {
		s.idleStreak = 0
	}
	var pick int
	if s.Steps > s.FairAfter {
		pick = s.lruPick(cand[:n])
	} else {
		pick = s.Ch.pickCand(s, cand[:n])
	}
	sl := &s.slots[cand[pick]]
	sl.lastRun = s.Steps + 1
	if sl.Site == scheduler.VerifLSelect || sl.Site == scheduler.VerifWaitSelect_ {
		sl.armRaw, sl.armExhausted = s.Ch.raw()
		sl.armRecPos = len(s.Ch.Rec) - 1
		sl.armPick = 0
	}
	s.mix(uint64(cand[pick])<<16 | uint64(sl.Site)<<8 | uint64(n&0xff))
	if s.KeepTrace {
		s.Trace = append(s.Trace, fmt.Sprintf("%5d grant g%d(%s) at %s  [%d releasable]", s.Steps, cand[pick], kindNames[sl.Kind], SiteName(sl.Site), n))
	}
	s.lastGrant = cand[pick]
	s.Pol.onGrant(s, cand[pick])
	sl.granted = true
	s.Steps++
	sleepToBoundary()
	return true
}

//go:norace
func (s *Sim) quietHolder() int {
	for i := 0; i < s.nslots; i++ {
		if o := &s.slots[i]; o.parked && o.holdKind == HoldQuiet {
			return i
		}
	}
	return -1
}

//go:norace
func (s *Sim) tickerLoopBlocked() bool {
	for i := 0; i < s.nsched; i++ {
		st := &s.sched[i]
		if st.loopSlot < 0 {
			continue
		}
		o := &s.slots[st.loopSlot]
		if !o.Exited && !o.parked && o.LastSite == scheduler.VerifLSelect && o.Info.HasTick {
			return true
		}
	}
	return false
}

func armSet(m int) string {
	if m == 0 {
		return "-"
	}
	var p []string
	for i, n := range []string{"dispatch", "enqueue", "result", "tick"} {
		if m&armBits[i] != 0 {
			p = append(p, n)
		}
	}
	return strings.Join(p, "+")
}

var siteNames = map[int]string{
	scheduler.VerifWStart: "worker:start", scheduler.VerifWDiePost: "worker:died-before-post", scheduler.VerifWRespawned: "worker:respawned",
	scheduler.VerifWGot: "worker:got-job", scheduler.VerifWRun: "worker:before-run", scheduler.VerifWPost: "worker:before-post",
	scheduler.VerifWNext: "worker:before-receive", scheduler.VerifWExit: "worker:exit", scheduler.VerifSpStart: "spawner:start",
	scheduler.VerifSpNext: "spawner:spawned-one", scheduler.VerifNewSpawned: "New:after-go-spawner", scheduler.VerifNewLoop: "New:after-go-loop",
	scheduler.VerifEnqSend: "Enqueue:before-send", scheduler.VerifLStart: "loop:start", scheduler.VerifLExit: "loop:exit",
	scheduler.VerifLPreKill: "loop:before-close", scheduler.VerifLDrain: "loop:drained-one", scheduler.VerifWaitClose: "Wait:before-close",
	scheduler.VerifLSelect: "loop:select", scheduler.VerifWaitSelect_: "Wait:select",
	HsStart: "harness:start", HsBody: "body:enter", HsStep: "body:step", HsHeld: "held", HsAfter: "after-wakeup-action", HsRet: "caller:returned", HsArg: "arg-probe", HsMisc: "harness", HsCtxErr: "ctx.Err()",
}

func SiteName(site int) string {
	if n, ok := siteNames[site]; ok {
		return n
	}
	return fmt.Sprintf("site%d", site)
}

// Outcome of Run.
type Outcome struct {
	Quiescent  bool
	OverBudget bool
	Invalid    string
	// Stuck lists goroutines that are alive and blocked when the system became
	// quiescent (diagnosis).
	Stuck []string
}

// Drive runs controller steps until quiescence or budget exhaustion.
func (s *Sim) Drive() {
	for s.step() {
		if s.Steps >= s.Budget {
			s.OverBudget = true
			synctest.Wait()
			s.finaliseLast()
			return
		}
	}
}

// Describe returns one line per live goroutine.
//
//go:norace
func (s *Sim) Describe() []string {
	var out []string
	for i := 0; i < s.nslots; i++ {
		o := &s.slots[i]
		if o.Exited {
			continue
		}
		if o.Kind == KSpawner && !o.parked {
			continue
		}
		st := "blocked after " + SiteName(o.LastSite)
		if o.parked {
			st = "parked at " + SiteName(o.Site)
			if o.holdKind != HoldNone {
				st += " (held)"
			}
		}
		out = append(out, fmt.Sprintf("g%d(%s) %s", i, kindNames[o.Kind], st))
	}
	return out
}

// LiveSchedulerGoroutines counts scheduler goroutines (workers, loops,
// spawners) that have not exited.
//
//go:norace
func (s *Sim) LiveSchedulerGoroutines() (n int, desc []string) {
	for i := 0; i < s.nslots; i++ {
		o := &s.slots[i]
		if o.Exited || o.Kind == KCaller || o.Kind == KUnknown {
			continue
		}
		if o.Kind == KSpawner && !o.parked {
			continue
		}
		n++
		st := "blocked after " + SiteName(o.LastSite)
		if o.parked {
			st = "parked at " + SiteName(o.Site)
		}
		desc = append(desc, fmt.Sprintf("g%d(%s) %s", i, kindNames[o.Kind], st))
	}
	return
}

// LiveOfSched returns live workers and other scheduler goroutines of the
// i-th scheduler created in this run.
//
//go:norace
func (s *Sim) LiveOfSched(i int) (workers, others int, ok bool) {
	if i >= s.nsched {
		return 0, 0, false
	}
	w, o := s.liveOf(s.sched[i].key)
	return w, o, true
}

//go:norace
func (s *Sim) NumScheds() int { return s.nsched }

// CallerTagOfSched returns the tag of the harness goroutine that created the
// i-th scheduler of this run.
//
//go:norace
func (s *Sim) CallerTagOfSched(i int) int {
	if i >= s.nsched {
		return -1
	}
	return s.sched[i].creatorTag
}

// DyingOfSched counts workers of scheduler i that are inside their death
// handler (a replacement may already exist).
//
//go:norace
func (s *Sim) DyingOfSched(i int) int {
	n := 0
	for k := 0; k < s.nslots; k++ {
		o := &s.slots[k]
		if o.Kind == KWorker && o.Home == s.sched[i].key && !o.Exited {
			site := o.LastSite
			if o.parked {
				site = o.Site
			}
			if site == scheduler.VerifWDiePost || site == scheduler.VerifWRespawned {
				n++
			}
		}
	}
	return n
}

// SchedStats returns probe counters of the i-th scheduler.
//
//go:norace
func (s *Sim) SchedStats(i int) (dispatched, maxOngoing, ticks, conc int) {
	st := &s.sched[i]
	return st.dispatched, st.maxOngoing, st.ticks, st.conc
}

// SchedIndexOfCaller returns the index of the scheduler most recently created
// by the calling goroutine, or -1.
//
//go:norace
func (s *Sim) SchedIndexOfCaller() int {
	id := goid()
	for i := s.nslots - 1; i >= 0; i-- {
		if s.slots[i].goid == id {
			for k := 0; k < s.nsched; k++ {
				if s.sched[k].key == s.slots[i].Key {
					return k
				}
			}
		}
	}
	return -1
}

//go:norace
func (s *Sim) NumSlots() int { return s.nslots }

// GoroutinesCreated returns how many scheduler goroutines were ever
// registered for scheduler i.
//
//go:norace
func (s *Sim) CreatedOfSched(i int) int {
	if i >= s.nsched {
		return 0
	}
	n := 0
	for k := 0; k < s.nslots; k++ {
		o := &s.slots[k]
		if o.Kind == KWorker {
			if o.Home == s.sched[i].key {
				n++
			}
			continue
		}
		if o.Key == s.sched[i].key && o.Kind != KCaller && o.Kind != KUnknown {
			n++
		}
	}
	return n
}

// RunBubble executes root inside a fresh synctest bubble with s as the
// current simulation. root runs on the controller goroutine. When root
// returns, all remaining goroutines are released to run freely; goroutines
// that stay blocked forever are reported through leakedBlocked.
func RunBubble(t *testing.T, s *Sim, root func()) (leakedBlocked bool) {
	s.hash = 14695981039346656037
	s.lastGrant = -1
	if s.Budget == 0 {
		s.Budget = 1 << 30
	}
	if s.FairAfter == 0 {
		s.FairAfter = 1 << 30
	}
	cur = s
	defer func() {
		cur = nil
		if r := recover(); r != nil {
			msg := fmt.Sprint(r)
			if strings.Contains(msg, "deadlock") || strings.Contains(msg, "blocked goroutines") {
				leakedBlocked = true
				return
			}
			panic(r)
		}
	}()
	synctest.Test(t, func(t *testing.T) {
		s.baselineG = runtime.NumGoroutine()
		sleepToBoundary()
		root()
		s.finish()
	})
	return false
}

// finish releases everything and lets the goroutines run to completion.
//
//go:norace
func (s *Sim) finish() {
	s.abort = true
	for i := 0; i < 4; i++ {
		sleepToBoundary()
		synctest.Wait()
	}
}

// UserCtx is a user-defined context.Context, as applications may pass to a
// directive: its own Done channel and error, values (and nothing else) from
// its parent. The parent is a live, cancellable standard context, so code that
// reaches through Value for the nearest standard cancel context finds one
// that is not cancelled.
type UserCtx struct {
	Parent context.Context
	mu     sync.Mutex
	done   chan struct{}
	err    error
	sim    *Sim
	// calls of Err() by the goroutine in slot cntSlot are counted in Counters[cntIdx]
	cntSlot, cntIdx int
}

// CountCalls counts the calling goroutine's future calls of Err() in counter idx.
func (c *UserCtx) CountCalls(s *Sim, idx int) { c.cntSlot, c.cntIdx = s.SlotIndex(), idx }

// YieldIn makes Err() a scheduling point of s for the goroutines s knows:
// whoever asks is parked first and reads afterwards, so that the context can
// end between any two looks at it (as it can in a real execution, where
// nothing orders the canceller against the reader).
func (c *UserCtx) YieldIn(s *Sim) { c.sim = s }

// ErrQuiet is Err without the scheduling point (for the harness's own reads).
func (c *UserCtx) ErrQuiet() error {
	c.mu.Lock()
	defer c.mu.Unlock()
	return c.err
}

//go:norace
func (s *Sim) ctxErrYield(c *UserCtx) {
	if s.abort {
		return
	}
	i := s.SlotIndex()
	if i < 0 {
		return // not a goroutine of the run (the standard library's context propagation, say)
	}
	sl := &s.slots[i]
	if sl.inHook || sl.Exited {
		return
	}
	s.Probes[PrCtxErrYield]++
	if c.cntIdx > 0 && i == c.cntSlot {
		s.Counters[c.cntIdx]++
	}
	s.park(sl, HsCtxErr)
}

func NewUserCtx(parent context.Context) *UserCtx {
	return &UserCtx{Parent: parent, done: make(chan struct{})}
}
func (c *UserCtx) Deadline() (time.Time, bool) { return time.Time{}, false }
func (c *UserCtx) Done() <-chan struct{}       { return c.done }
func (c *UserCtx) Value(k any) any             { return c.Parent.Value(k) }
func (c *UserCtx) Err() error {
	if c.sim != nil {
		c.sim.ctxErrYield(c)
	}
	return c.ErrQuiet()
}

// Cancel ends the context with context.Canceled.
func (c *UserCtx) Cancel() {
	c.mu.Lock()
	if c.err == nil {
		c.err = context.Canceled
		close(c.done)
	}
	c.mu.Unlock()
}

// ---- choices and policies ----

// Chooser is the single source of scheduling decisions of a run.
type Chooser struct {
	rng        *rand.Rand
	replay     []uint32
	pos        int
	Replaying  bool
	Rec        []uint32
	Nontrivial int
}

func NewChooser(seed int64) *Chooser { return &Chooser{rng: rand.New(rand.NewSource(seed))} }
func ReplayChooser(list []uint32) *Chooser {
	return &Chooser{replay: list, Replaying: true}
}

func (c *Chooser) next() (uint32, bool) {
	if c.pos < len(c.replay) {
		v := c.replay[c.pos]
		c.pos++
		return v, true
	}
	return 0, false
}

func (c *Chooser) raw() (v uint32, exhausted bool) {
	if c.Replaying {
		var ok bool
		v, ok = c.next()
		exhausted = !ok
	} else {
		v = c.rng.Uint32()
	}
	c.Rec = append(c.Rec, v)
	return v, exhausted
}

func (c *Chooser) pickCand(s *Sim, cand []int) int {
	n := len(cand)
	if n == 1 {
		return 0
	}
	c.Nontrivial++
	var idx int
	if c.Replaying {
		if v, ok := c.next(); ok {
			idx = int(v % uint32(n))
		} else {
			idx = s.lruPick(cand)
		}
	} else {
		idx = s.Pol.pick(s, c.rng, cand)
	}
	c.Rec = append(c.Rec, uint32(idx))
	return idx
}

// Policy biases the random scheduler. It only shapes the distribution from
// which choices are drawn during search; a replay needs only the recorded
// choice list.
type Policy struct {
	Name    string
	KindW   [5]int // weight per goroutine kind
	ArmW    [4]int // weight per loop-select arm
	SlowIdx int    // slot index with weight 1 (one slow party); -1 none
	PCT     bool
	prio    [MaxSlots]int
	changes []int
	nextLow int
}

var PolicyNames = []string{"uniform", "pct", "starve-loop", "starve-result", "caller-first", "caller-last", "slow-worker", "tick-greedy", "worker-first", "submit-all-first"}

// NewPolicy draws the parameters of the named policy from rng.
func NewPolicy(name string, rng *rand.Rand, estSteps int) *Policy {
	p := &Policy{Name: name, KindW: [5]int{1, 1, 1, 1, 1}, ArmW: [4]int{1, 1, 1, 1}, SlowIdx: -1}
	switch name {
	case "uniform":
	case "pct":
		p.PCT = true
		for i := range p.prio {
			p.prio[i] = rng.Intn(1 << 20)
		}
		d := rng.Intn(4)
		for i := 0; i < d; i++ {
			p.changes = append(p.changes, rng.Intn(estSteps+1))
		}
	case "starve-loop":
		p.KindW = [5]int{20, 20, 1, 20, 20}
	case "starve-result":
		p.ArmW = [4]int{20, 20, 1, 20}
	case "caller-first":
		p.KindW = [5]int{1, 1, 1, 1, 40}
		p.ArmW = [4]int{1, 20, 1, 1}
	case "caller-last":
		p.KindW = [5]int{30, 30, 30, 30, 1}
	case "slow-worker":
		p.SlowIdx = 3 + rng.Intn(6)
		p.KindW = [5]int{15, 15, 15, 15, 15}
	case "tick-greedy":
		p.ArmW = [4]int{1, 1, 1, 30}
	case "submit-all-first":
		// callers and the loop's enqueue arm are strongly preferred, workers starved:
		// (nearly) everything is submitted before (nearly) anything has run
		p.KindW = [5]int{200, 1, 200, 200, 200}
		p.ArmW = [4]int{1, 40, 1, 1}
	case "worker-first":
		p.KindW = [5]int{1, 30, 1, 1, 1}
		p.ArmW = [4]int{20, 5, 1, 1}
	default:
		panic("unknown policy " + name)
	}
	return p
}

func (p *Policy) pick(s *Sim, rng *rand.Rand, cand []int) int {
	if p.PCT {
		best, bi := -1, 0
		for i, c := range cand {
			if p.prio[c] > best {
				best, bi = p.prio[c], i
			}
		}
		return bi
	}
	tot := 0
	var w [MaxSlots]int
	for i, c := range cand {
		wi := p.KindW[s.slots[c].Kind]
		if c == p.SlowIdx {
			wi = 1
		}
		w[i] = wi
		tot += wi
	}
	r := rng.Intn(tot)
	for i := range cand {
		r -= w[i]
		if r < 0 {
			return i
		}
	}
	return len(cand) - 1
}

func (p *Policy) onGrant(s *Sim, slot int) {
	if !p.PCT {
		return
	}
	for _, c := range p.changes {
		if c == s.Steps {
			p.nextLow--
			p.prio[slot] = p.nextLow
		}
	}
}

//go:build verif && go1.25

// Package l1 drives the real scheduler API (Config.New, Enqueue, Wait)
// under the deterministic simulator.
package l1

import (
	"math/rand"
)

// Outcomes of a job body.
const (
	OutOK = iota
	OutErr
	OutGoexit
)

// Cancellation modes of a scheduler's context.
const (
	CancelNone     = iota
	CancelBefore   // cancelled before Config.New
	CancelDeadline // context.WithTimeout on the fake clock
	CancelExternal // a separate goroutine cancels after DelaySteps of its own steps
)

// JobD describes one job.
type JobD struct {
	Deps   []int `json:"deps,omitempty"`
	Len    int   `json:"len,omitempty"`    // number of yields inside the body
	Out    int   `json:"out,omitempty"`    // OutOK / OutErr / OutGoexit
	Cancel bool  `json:"cancel,omitempty"` // the body cancels the context before finishing
	Stuck  bool  `json:"stuck,omitempty"`  // the body is held until the caller has returned
	Enq    int   `json:"enq,omitempty"`    // 0: enqueued by the caller; k>0: by concurrent enqueuer k
	// Ctx: which context the job is enqueued with. 0: the scheduler's (the one
	// Wait gets); 1: a context of its own that stays live; 2: a context of its
	// own that is already cancelled when the job is enqueued; 3: a context of
	// its own that job CtxBy cancels from inside its body (CtxBy may be the
	// job itself).
	Ctx   int `json:"ctx,omitempty"`
	CtxBy int `json:"ctx_by,omitempty"`
	// ErrWrap: the error an OutErr job returns wraps context.DeadlineExceeded
	// (1) or context.Canceled (2): a private timeout of the job's own making.
	ErrWrap int `json:"err_wrap,omitempty"`
	// SameDeps k>0: the job is enqueued with the very slice object job k-1 was
	// enqueued with as Job.Dependencies (callers may reuse one slice).
	SameDeps int `json:"same_deps,omitempty"`
}

// Per-job context modes.
const (
	CtxShared = iota
	CtxOwnLive
	CtxOwnDead
	CtxOwnCancelledBy
)

// SchedD describes one scheduler and its workload.
type SchedD struct {
	N          int    `json:"n"` // Config.Concurrency (0 = default)
	COE        bool   `json:"coe,omitempty"`
	Emitter    bool   `json:"emitter,omitempty"`
	FreqSteps  int    `json:"freq_steps,omitempty"` // flush period = FreqSteps*Q + FreqOdd ns
	FreqOdd    int    `json:"freq_odd,omitempty"`
	Jobs       []JobD `json:"jobs"`
	CancelMode int    `json:"cancel_mode,omitempty"`
	DelaySteps int    `json:"delay_steps,omitempty"`
	Enqueuers  int    `json:"enqueuers,omitempty"`
	Barrier    bool   `json:"barrier,omitempty"`  // bodies of non-failing jobs meet at an N-party barrier
	CtxKind    int    `json:"ctx_kind,omitempty"` // 1: the scheduler's context is a user-defined context.Context type; 2: cancelled with a cause
	// WaitCtx: the context given to Wait. 0: the one the jobs are enqueued
	// with; 1: a separate context that stays live; 2: a separate context that an
	// outside party cancels after WaitDelay of its own steps.
	WaitCtx   int `json:"wait_ctx,omitempty"`
	WaitDelay int `json:"wait_delay,omitempty"`
	// SharedErr: every failing job returns one and the same error value.
	SharedErr bool `json:"shared_err,omitempty"`
	// SlowEmit: the Emitter holds its caller for one simulator step per report.
	SlowEmit bool `json:"slow_emit,omitempty"`
	// WaitAfterAll: the caller calls Wait only after every job body has ended
	// (fault-free workloads only: otherwise some bodies never run).
	WaitAfterAll bool `json:"wait_after_all,omitempty"`
}

// Desc is the complete, self-describing input of one simulated run.
type Desc struct {
	Engine     string   `json:"engine"`
	Prop       string   `json:"prop"`
	Seed       int64    `json:"seed"`
	Run        int      `json:"run"`
	GOMAXPROCS int      `json:"gomaxprocs"`
	Policy     string   `json:"policy"`
	Budget     int      `json:"budget"`
	FairAfter  int      `json:"fair_after"`
	Scheds     []SchedD `json:"scheds"`
	Choices    []uint32 `json:"choices"`
}

// Limit returns the effective concurrency limit of a scheduler.
func (d *Desc) Limit(s *SchedD) int {
	if s.N > 0 {
		return s.N
	}
	n := d.GOMAXPROCS
	if n < 4 {
		n = 4
	}
	return n
}

func pickN(rng *rand.Rand, tier string) int {
	switch r := rng.Intn(100); {
	case r < 30:
		return 1
	case r < 55:
		return 2
	case r < 72:
		return 3
	case r < 84:
		return 4 + rng.Intn(5)
	case r < 92:
		return 0
	default:
		if tier == "thorough" {
			return 16 + rng.Intn(49)
		}
		return 9 + rng.Intn(8)
	}
}

// propOf maps a population name to the property whose violations it reports.
func propOf(p string) string {
	switch p {
	case "C03scale":
		return "C03"
	case "C01fanin":
		return "C01"
	case "C19fanin":
		return "C19"
	case "C05fanin":
		return "C05"
	}
	return p
}

// generateFanIn: one job that depends on more than 2^16 others, nearly all of
// them still outstanding when it is submitted; state reports every step or two.
func generateFanIn(rng *rand.Rand, prop string, gomaxprocs int) *Desc {
	d := &Desc{Engine: "l1", Prop: prop, GOMAXPROCS: gomaxprocs, Policy: "submit-all-first"}
	s := SchedD{N: 1 + rng.Intn(2), COE: rng.Intn(2) == 0, Emitter: true, FreqSteps: 2 + rng.Intn(2), FreqOdd: 2*rng.Intn(1<<19) + 1}
	n := 1<<16 + 3000 + rng.Intn(6000)
	s.Jobs = make([]JobD, n+1)
	deps := make([]int, n)
	for i := range deps {
		deps[i] = i
	}
	s.Jobs[n] = JobD{Deps: deps, Len: 1}
	if rng.Intn(2) == 0 {
		s.Jobs = append(s.Jobs, JobD{Deps: []int{n}}) // and something behind the join
	}
	if prop == "C05fanin" {
		// Wait is only called once everything has run (nothing fails in this workload)
		s.WaitAfterAll = true
		s.Emitter = rng.Intn(2) == 0
	}
	d.Scheds = []SchedD{s}
	d.Budget = 40 * (n + 100)
	d.FairAfter = d.Budget / 2
	return d
}

// genRun is the index of the run being generated within its process's batch
// (populations with one very long workload place it by it).
var genRun int

// Generate draws a run descriptor for the given property's population.
func Generate(rng *rand.Rand, prop, tier string, gomaxprocs int) *Desc {
	if prop == "C01fanin" || prop == "C19fanin" || prop == "C05fanin" {
		return generateFanIn(rng, prop, gomaxprocs)
	}
	d := &Desc{Engine: "l1", Prop: prop, GOMAXPROCS: gomaxprocs}
	maxJobs := 14
	if tier == "thorough" {
		maxJobs = 40
	}
	nsched := 1
	if rng.Intn(6) == 0 {
		nsched = 2 + rng.Intn(2)
	}
	// now and then one scheduler with more workers than fit a byte (all of them busy)
	wideBig := prop != "C03scale" && rng.Intn(150) == 0
	if prop == "C03scale" || wideBig {
		nsched = 1
	}
	for si := 0; si < nsched; si++ {
		s := SchedD{N: pickN(rng, tier)}
		s.COE = rng.Intn(2) == 0
		nj := 1 + rng.Intn(maxJobs)
		if rng.Intn(12) == 0 {
			nj = 0
		}
		if tier == "thorough" && rng.Intn(40) == 0 {
			nj = 40 + rng.Intn(260)
		}
		// wide: more workers than any fixed-size internal buffer is likely to hold, all of them busy
		wide := prop != "C03scale" && rng.Intn(50) == 0
		if wideBig {
			wide = true
		}
		if wide {
			s.N = 65 + rng.Intn(70)
			if wideBig {
				s.N = 257 + rng.Intn(60)
			}
			nj = s.N + rng.Intn(s.N)
		}
		// hub: one early job that most later jobs depend on (a consumer list longer than any
		// small fixed-size buffer), next to ordinary neighbours with consumers of their own
		hub := -1
		if !wide && prop != "C03scale" && rng.Intn(10) == 0 {
			hub = rng.Intn(3)
			if nj < hub+11 {
				nj = hub + 11 + rng.Intn(8)
			}
		}
		// emitter
		if rng.Intn(3) == 0 {
			s.Emitter = true
		}
		errRate, goexitRate := 0, 0 // per mille
		switch rng.Intn(4) {
		case 0: // fault free
		case 1:
			errRate = 60 + rng.Intn(200)
		case 2:
			errRate, goexitRate = 50+rng.Intn(100), 30+rng.Intn(100)
		case 3:
			goexitRate = 40 + rng.Intn(150)
		}
		cancelP := 8 // 1 in cancelP runs has a cancellation
		edgeP := 2 + rng.Intn(5)
		if wide {
			edgeP = 30 * nj
			if errRate > 40 {
				errRate = 10 + rng.Intn(30)
			}
		}
		switch prop {
		case "C07":
			s.COE = false
			if errRate == 0 && rng.Intn(3) != 0 {
				errRate = 80 + rng.Intn(200)
			}
		case "C08":
			s.COE = true
			if errRate == 0 && rng.Intn(3) != 0 {
				errRate = 80 + rng.Intn(250)
			}
			cancelP = 12
		case "C09":
			cancelP = 1
		case "C19":
			s.Emitter = true
		case "C03":
			if rng.Intn(3) == 0 {
				s.Barrier = true
				s.COE = true
				errRate = 0
				if goexitRate == 0 {
					goexitRate = 100 + rng.Intn(200)
				}
			}
		case "C03scale":
			s.N = 1 + rng.Intn(4)
			nj = 1000 + rng.Intn(4000)
			if tier == "thorough" {
				nj = 20000 + rng.Intn(80000)
			}
			s.Emitter = false
			errRate, goexitRate = 0, rng.Intn(2)*2
			if (genRun == 1 && tier == "quick") || rng.Intn(40) == 0 {
				// (the second run of every quick batch, else now and then:) more than 2^16 jobs through one and the same worker goroutine
				s.N, nj, goexitRate = 1, 1<<16+500+rng.Intn(2000), 0
			}
			s.COE = true
			cancelP = 1 << 30
			edgeP = 40
		case "C12":
			// early returns while other jobs still run
			cancelP = 3
			if rng.Intn(2) == 0 {
				s.COE = false
				if errRate == 0 {
					errRate = 100 + rng.Intn(200)
				}
			}
		case "C06":
			// early exits are where leaks live
			if rng.Intn(2) == 0 {
				s.COE = false
				if errRate == 0 {
					errRate = 100 + rng.Intn(200)
				}
			}
		}
		if s.Emitter {
			s.FreqSteps = rng.Intn(5)
			s.FreqOdd = 2*rng.Intn(1<<19) + 1
			s.SlowEmit = rng.Intn(3) == 0
		}
		if rng.Intn(cancelP) == 0 {
			s.CancelMode = 1 + rng.Intn(3)
			if prop == "C09" && rng.Intn(3) == 0 {
				s.CancelMode = CancelNone // cancellation from inside a job, below
			}
			s.DelaySteps = rng.Intn(12 + 6*nj)
		}
		if s.Barrier {
			s.CancelMode = CancelNone
		}
		if k := rng.Intn(9); k == 0 && s.CancelMode != CancelDeadline {
			s.CtxKind = 1
		} else if k == 1 {
			s.CtxKind = 2
		}
		s.SharedErr = rng.Intn(6) == 0
		if rng.Intn(8) == 0 && !s.Barrier && prop != "C03scale" {
			s.WaitCtx = 1 + rng.Intn(2)
			s.WaitDelay = rng.Intn(12 + 6*nj)
		}
		if rng.Intn(8) == 0 && !s.Barrier && prop != "C03scale" {
			s.Enqueuers = 1 + rng.Intn(2)
		}
		inJobCancel := (s.CancelMode == CancelNone && !s.Barrier && prop != "C03scale") && (prop == "C09" || rng.Intn(10) == 0)
		for j := 0; j < nj; j++ {
			var jd JobD
			if s.Enqueuers > 0 && j != hub {
				jd.Enq = rng.Intn(s.Enqueuers + 1)
			}
			if !s.Barrier {
				if hub >= 0 && j > hub && rng.Intn(5) != 0 {
					jd.Deps = append(jd.Deps, hub)
				}
				for k := 0; k < j && len(jd.Deps) < 8; k++ {
					if k == hub && len(jd.Deps) > 0 && jd.Deps[0] == hub && rng.Intn(15) != 0 {
						continue
					}
					// dependencies must have been returned by Enqueue before: same enqueuer, or the
					// caller's own earlier jobs (enqueuers start after the caller's jobs are in).
					if s.Jobs[k].Enq != jd.Enq && s.Jobs[k].Enq != 0 {
						continue
					}
					if jd.Enq == 0 && s.Jobs[k].Enq != 0 {
						continue
					}
					den := edgeP
					if j-k > 6 {
						den *= 3
					}
					if rng.Intn(den) == 0 {
						jd.Deps = append(jd.Deps, k)
						if rng.Intn(15) == 0 {
							jd.Deps = append(jd.Deps, k) // duplicate dependency
						}
					}
				}
			}
			if !s.Barrier && j > 0 && rng.Intn(8) == 0 {
				// reuse an earlier job's Dependencies slice (same submitter, so it exists by then)
				for tries := 0; tries < 4; tries++ {
					k := rng.Intn(j)
					if len(s.Jobs[k].Deps) > 0 && s.Jobs[k].Enq == jd.Enq {
						jd.Deps = append([]int{}, s.Jobs[k].Deps...)
						jd.SameDeps = k + 1
						break
					}
				}
			}
			jd.Len = rng.Intn(4)
			if rng.Intn(10) == 0 {
				jd.Len = 4 + rng.Intn(8)
			}
			if prop == "C03scale" {
				jd.Len = rng.Intn(2)
			}
			r := rng.Intn(1000)
			if r < errRate {
				jd.Out = OutErr
				if w := rng.Intn(4); w < 3 {
					jd.ErrWrap = w
				}
			} else if r < errRate+goexitRate {
				jd.Out = OutGoexit
			}
			if s.waitWillBeCancelled() && rng.Intn(6) == 0 {
				jd.Stuck = true
			}
			s.Jobs = append(s.Jobs, jd)
		}
		// per-job contexts (raw scheduler API only: generated code shares one context)
		if prop != "C03scale" && nj > 0 && rng.Intn(4) == 0 {
			for j := range s.Jobs {
				if rng.Intn(3) != 0 {
					continue
				}
				jd := &s.Jobs[j]
				switch r := rng.Intn(10); {
				case r < 3:
					jd.Ctx = CtxOwnLive
				case r < 6:
					if !s.Barrier {
						jd.Ctx = CtxOwnDead
					}
				case r < 8:
					jd.Ctx, jd.CtxBy = CtxOwnCancelledBy, j // cancels its own context while running
				default:
					if !s.Barrier {
						jd.Ctx, jd.CtxBy = CtxOwnCancelledBy, rng.Intn(nj)
						if len(jd.Deps) > 0 && rng.Intn(2) == 0 {
							jd.CtxBy = jd.Deps[rng.Intn(len(jd.Deps))]
						}
					}
				}
			}
		}
		if inJobCancel && nj > 0 {
			s.Jobs[rng.Intn(nj)].Cancel = true
			if rng.Intn(4) == 0 {
				s.Jobs[rng.Intn(nj)].Cancel = true
			}
		}
		if s.Barrier {
			// Optionally a failing job with dependents first: the dependents are
			// invalidated (ContinueOnError) and must not cost capacity.
			if rng.Intn(2) == 0 {
				k := 1 + rng.Intn(4)
				pre := []JobD{{Out: OutErr, Len: rng.Intn(2)}}
				for i := 0; i < k; i++ {
					dep := JobD{Deps: []int{0}}
					if i > 0 && rng.Intn(2) == 0 {
						dep.Deps = []int{i} // chain: transitively invalidated
					}
					pre = append(pre, dep)
				}
				for i := range s.Jobs {
					for x := range s.Jobs[i].Deps {
						s.Jobs[i].Deps[x] += len(pre)
					}
					if s.Jobs[i].Ctx == CtxOwnCancelledBy {
						s.Jobs[i].CtxBy += len(pre)
					}
					if s.Jobs[i].SameDeps > 0 {
						s.Jobs[i].SameDeps += len(pre)
					}
				}
				s.Jobs = append(pre, s.Jobs...)
			}
			// at least Limit non-failing independent jobs so that the barrier can complete
			lim := d.Limit(&s)
			ok := 0
			for _, j := range s.Jobs {
				if j.Out == OutOK && len(j.Deps) == 0 {
					ok++
				}
			}
			for ; ok < lim+rng.Intn(3); ok++ {
				s.Jobs = append(s.Jobs, JobD{Len: rng.Intn(3)})
			}
		}
		d.Scheds = append(d.Scheds, s)
	}
	if prop == "C12" {
		// go1.26.8's race runtime dies (SIGSEGV in __tsan::SlotLock under runtime.(*timer).maybeRunChan)
		// when a select runs a due ticker of a synctest bubble while several dozen goroutines exist:
		// every death seen had >= 55 workers and a ticker. Race-detector runs keep the ticker for
		// ordinary sizes only (plain builds run the wide schedulers with tickers).
		w := 0
		for i := range d.Scheds {
			w += d.Limit(&d.Scheds[i])
		}
		if w > 32 {
			for i := range d.Scheds {
				d.Scheds[i].Emitter, d.Scheds[i].SlowEmit = false, false
			}
		}
	}
	d.Policy = pickPolicy(rng, prop)
	tot, maxLen, workers := 0, 0, 0
	for i := range d.Scheds {
		s := &d.Scheds[i]
		tot += len(s.Jobs)
		workers += d.Limit(s)
		for _, j := range s.Jobs {
			if j.Len > maxLen {
				maxLen = j.Len
			}
		}
	}
	d.Budget = 50 * (tot + workers + 5) * (maxLen + 10)
	d.FairAfter = d.Budget / 2
	return d
}

// waitWillBeCancelled: the context Wait is given is cancelled by an outside
// party sooner or later, whatever the jobs do.
func (s *SchedD) waitWillBeCancelled() bool {
	if s.WaitCtx == 2 {
		return true
	}
	return s.WaitCtx == 0 && (s.CancelMode == CancelDeadline || s.CancelMode == CancelExternal)
}

// Valid reports whether the descriptor is one the generator could have
// produced as far as the harness's own preconditions go: a barrier workload
// needs at least Limit jobs that can meet at the barrier (independent,
// non-failing, not skipped because of their own context). The minimiser must
// not shrink below that, or it would manufacture the very symptom it preserves.
func (d *Desc) Valid() bool {
	for i := range d.Scheds {
		s := &d.Scheds[i]
		// a job held until the caller has returned needs something that makes Wait return without it
		if s.WaitAfterAll {
			for _, jd := range s.Jobs {
				if jd.Out != OutOK || jd.Ctx == CtxOwnDead || jd.Ctx == CtxOwnCancelledBy || jd.Cancel {
					return false
				}
			}
			if s.CancelMode != CancelNone {
				return false
			}
		}
		if !s.waitWillBeCancelled() {
			for _, jd := range s.Jobs {
				if jd.Stuck {
					return false
				}
			}
		}
		if !s.Barrier {
			continue
		}
		ok := 0
		for j, jd := range s.Jobs {
			if jd.Out != OutOK || len(jd.Deps) != 0 {
				continue
			}
			if jd.Ctx == CtxOwnDead || (jd.Ctx == CtxOwnCancelledBy && jd.CtxBy != j) {
				continue
			}
			ok++
		}
		if ok < d.Limit(s) {
			return false
		}
	}
	return true
}

func pickPolicy(rng *rand.Rand, prop string) string {
	names := []string{"uniform", "uniform", "pct", "starve-loop", "starve-result", "caller-first", "caller-last", "slow-worker", "tick-greedy", "worker-first", "submit-all-first"}
	switch prop {
	case "C06":
		names = append(names, "starve-result", "starve-result", "worker-first")
	case "C19":
		names = append(names, "tick-greedy", "tick-greedy", "starve-result")
	case "C03scale":
		return []string{"uniform", "starve-result", "worker-first"}[rng.Intn(3)]
	}
	return names[rng.Intn(len(names))]
}

//go:build verif && go1.25

package l1

import (
	"context"
	"errors"
	"fmt"
	"runtime"
	"sync/atomic"
	"testing"
	"time"

	"cffverif/engine"

	"go.uber.org/cff/scheduler"
)

// Event kinds of the harness history.
const (
	EvEnqCall = iota + 1
	EvEnqRet
	EvStart
	EvEnd
	EvCancel
	EvWaitCall
	EvWaitRet
	EvJobCancel  // the own context of job J was cancelled
	EvWaitCancel // the separate context given to Wait was cancelled
)

var evNames = [...]string{"", "enqueue-call", "enqueue-ret", "start", "end", "cancel", "wait-call", "wait-ret", "job-context-cancelled", "wait-context-cancelled"}

// Ev is one entry of the harness history. Seq is a global sequence number
// handed out while exactly one goroutine is running.
type Ev struct {
	Seq  int
	Kind int
	S, J int
	Slot int
}

func (e Ev) String() string {
	return fmt.Sprintf("#%d s%d %s j%d (g%d)", e.Seq, e.S, evNames[e.Kind], e.J, e.Slot)
}

type stateRep struct {
	St            scheduler.State
	Submitted     int
	SubmittedDeps int
	AfterRet      bool
	Seq           int
}

type ctxKey struct{}

// schedRun is the per-scheduler harness state. It is only touched from
// //go:norace methods.
type schedRun struct {
	d                        *SchedD
	limit                    int
	ctx                      context.Context
	cancel                   context.CancelFunc
	token                    *int
	errs                     []error
	inflight                 int
	maxInfl                  int
	submitted, submittedDeps int
	returned                 bool
	waitErr                  error
	ctxErrAtRet              error
	ctxErrSeen               bool
	states                   []stateRep
	nstates                  int
	ctxBad                   int // bodies that saw a context that is not the one passed to Enqueue
	enqPanic                 any
	// ctxPub gives the race detector the happens-before edge from the creation
	// of the context to the external canceller (a user program has it by
	// passing the cancel function along).
	ctxPub atomic.Bool
	// per-job contexts (JobD.Ctx != CtxShared): Done channel and cancel function, by job
	jdone   []<-chan struct{}
	jcancel []context.CancelFunc
	wcancel context.CancelFunc // cancels Wait's own context (SchedD.WaitCtx)
	// jpub mirrors the synchronisation a user needs to hand a job's cancel
	// function to another job's body (add after creation, load before use)
	jpub atomic.Int32
}

// Result of one run.
type Result struct {
	D                                             *Desc
	Sim                                           *engine.Sim
	Events                                        []Ev
	nev                                           int
	SR                                            []*schedRun
	Hash                                          uint64
	Steps                                         int
	Choices                                       []uint32
	Nontriv                                       int
	Quiesced                                      bool
	AllReturned                                   bool
	LeakDesc                                      []string
	LeakedBlocked                                 bool
	StuckDesc                                     []string
	Faults                                        map[string]int
	Viol                                          []Violation
	InvViol                                       []Violation // invariant violations found during the run
	Trace                                         []string
	GoexitFired, ErrFired, CancelFired, StuckHeld int
	JobCtxCancelled                               int
	LateEnqAfterDone, LateEnqAfterFail            int
}

type runner struct {
	sim *engine.Sim
	res *Result
	d   *Desc
}

//go:norace
func (r *runner) log(kind, s, j int) int {
	seq := r.sim.NextSeq()
	if r.res.nev < len(r.res.Events) {
		r.res.Events[r.res.nev] = Ev{Seq: seq, Kind: kind, S: s, J: j, Slot: r.sim.SlotIndex()}
		r.res.nev++
	}
	return seq
}

// flag and counter indices
func flagReturned(s int) int     { return s }
func flagCtxReady(s int) int     { return 16 + s }
func flagWaitCtxReady(s int) int { return 32 + s }
func ctrEnqDone(s int) int       { return s }
func ctrBarrier(s int) int       { return 16 + s }
func ctrEnded(s int) int         { return 32 + s }

//go:norace
func (sr *schedRun) bodyStart(r *runner, s, j int, ctx context.Context) {
	r.log(EvStart, s, j)
	sr.inflight++
	if sr.inflight > sr.maxInfl {
		sr.maxInfl = sr.inflight
	}
	want := sr.ctx.Done()
	if j < len(sr.jdone) && sr.jdone[j] != nil {
		want = sr.jdone[j]
	}
	if ctx.Value(ctxKey{}) != any(sr.token) || ctx.Done() != want {
		sr.ctxBad++
	}
}

//go:norace
func (sr *schedRun) bodyEnd(r *runner, s, j int) {
	r.log(EvEnd, s, j)
	sr.inflight--
	r.sim.AddCounter(ctrEnded(s), 1)
}

//go:norace
func (sr *schedRun) noteSubmit(hasDeps bool) {
	sr.submitted++
	if hasDeps {
		sr.submittedDeps++
	}
}

//go:norace
func (sr *schedRun) emit(r *runner, s int, st scheduler.State) {
	rep := stateRep{St: st, Submitted: sr.submitted, SubmittedDeps: sr.submittedDeps, AfterRet: sr.returned, Seq: r.sim.Seq}
	if sr.nstates < len(sr.states)-16 {
		sr.states[sr.nstates] = rep
		sr.nstates++
		return
	}
	// beyond the recording capacity (very long runs): keep what cannot be right on its face
	ex := st.Pending - st.Ready - st.Waiting
	if sr.nstates < len(sr.states) && (st.Pending < 0 || st.Ready < 0 || st.Waiting < 0 || st.IdleWorkers < 0 || ex < 0 || ex > st.Concurrency ||
		st.IdleWorkers != st.Concurrency-ex || st.Pending > rep.Submitted || st.Waiting > rep.SubmittedDeps || rep.AfterRet) {
		sr.states[sr.nstates] = rep
		sr.nstates++
	}
}

//go:norace
func (sr *schedRun) setReturned(err, ctxErr error) {
	sr.waitErr, sr.ctxErrAtRet, sr.returned = err, ctxErr, true
}

//go:norace
func (sr *schedRun) setCtx(ctx context.Context, cancel context.CancelFunc) {
	sr.ctx, sr.cancel = ctx, cancel
}

//go:norace
func (sr *schedRun) getCtx() (context.Context, context.CancelFunc) { return sr.ctx, sr.cancel }

//go:norace
func (sr *schedRun) setWaitCancel(c context.CancelFunc) { sr.wcancel = c }

//go:norace
func (sr *schedRun) getWaitCancel() context.CancelFunc { return sr.wcancel }

// jobCancel returns the cancel function of job k's own context once the
// caller has created it (nil before).
//
//go:norace
func (sr *schedRun) jobCancel(k int) context.CancelFunc { return sr.jcancel[k] }

//go:norace
func (sr *schedRun) setJobCtx(k int, done <-chan struct{}, cancel context.CancelFunc) {
	sr.jdone[k], sr.jcancel[k] = done, cancel
}

type emitFn func(scheduler.State)

func (f emitFn) Emit(s scheduler.State) { f(s) }

// jobErr is the identity-carrying error returned by a failing job.
type jobErr struct {
	s, j  int
	wraps error // a context error of the job's own making (private timeout), or nil
}

func (e *jobErr) Error() string {
	if e.j < 0 {
		return fmt.Sprintf("not found (s%d; one sentinel for every failing job)", e.s)
	}
	return fmt.Sprintf("job s%d/j%d failed", e.s, e.j)
}
func (e *jobErr) Unwrap() error { return e.wraps }

func (r *runner) body(si, ji int) func(context.Context) error {
	sr := r.res.SR[si]
	jd := sr.d.Jobs[ji]
	sim := r.sim
	return func(ctx context.Context) error {
		sim.Yield(engine.HsBody)
		if sim.Aborted() {
			return nil
		}
		sr.bodyStart(r, si, ji, ctx)
		for k := 0; k < jd.Len; k++ {
			sim.Yield(engine.HsStep)
		}
		if sr.d.Barrier && jd.Out == OutOK {
			sim.AddCounter(ctrBarrier(si), 1)
			sim.Hold(engine.HoldCounter, ctrBarrier(si), sr.limit)
		}
		if jd.Stuck {
			r.noteStuck()
			sim.Hold(engine.HoldFlag, flagReturned(si), 0)
		}
		if sim.Aborted() {
			return nil
		}
		if jd.Cancel {
			r.log(EvCancel, si, ji)
			_, cancel := sr.getCtx()
			cancel()
			sim.Yield(engine.HsAfter)
		}
		for k := range sr.d.Jobs {
			if o := &sr.d.Jobs[k]; o.Ctx == CtxOwnCancelledBy && o.CtxBy == ji {
				_ = sr.jpub.Load()
				if c := sr.jobCancel(k); c != nil {
					r.log(EvJobCancel, si, k)
					r.noteFault(&r.res.JobCtxCancelled)
					c()
					sim.Yield(engine.HsAfter)
				}
			}
		}
		sr.bodyEnd(r, si, ji)
		switch jd.Out {
		case OutErr:
			r.noteFault(&r.res.ErrFired)
			return sr.errs[ji]
		case OutGoexit:
			r.noteFault(&r.res.GoexitFired)
			runtime.Goexit()
		}
		return nil
	}
}

//go:norace
func (r *runner) noteFault(p *int) { *p++ }

//go:norace
func (r *runner) noteStuck() { r.res.StuckHeld++ }

// errCause is the cause a CtxKind 2 context is cancelled with; nothing the
// scheduler reports may be it.
var errCause = errors.New("cancellation cause (not the context's error)")

func (r *runner) caller(si int) {
	sim := r.sim
	sr := r.res.SR[si]
	sd := sr.d
	base := context.WithValue(context.Background(), ctxKey{}, sr.token)
	ctx, cancel := context.WithCancel(base)
	var quietErr func() error // the harness's own look at a user-defined context (no scheduling point)
	if sd.CtxKind == 2 && sd.CancelMode != CancelDeadline {
		cctx, ccancel := context.WithCancelCause(base)
		ctx, cancel = cctx, func() { ccancel(errCause) }
	}
	if sd.CancelMode == CancelDeadline {
		d := time.Duration(sd.DelaySteps)*engine.Q + time.Duration(2*(sd.DelaySteps%1000)+1)
		if sd.CtxKind == 2 {
			ctx, cancel = context.WithTimeoutCause(base, d, errCause)
		} else {
			ctx, cancel = context.WithTimeout(base, d)
		}
		sim.SetTimerUntil(time.Now().UnixNano() + int64(d))
		sim.AddIdleMax(sd.DelaySteps + 4)
		context.AfterFunc(ctx, func() { r.log(EvCancel, si, -1) })
	}
	if sd.CtxKind == 1 && sd.CancelMode != CancelDeadline {
		uc := engine.NewUserCtx(ctx)
		uc.YieldIn(sim)
		quietErr = uc.ErrQuiet
		stdCancel := cancel
		ctx, cancel = context.WithValue(uc, ctxKey{}, sr.token), func() { uc.Cancel(); stdCancel() }
	}
	sr.setCtx(ctx, cancel)
	sr.ctxPub.Store(true)
	sim.SetFlag(flagCtxReady(si))
	if sd.CancelMode == CancelBefore {
		r.log(EvCancel, si, -1)
		cancel()
	}
	cfg := scheduler.Config{Concurrency: sd.N, ContinueOnError: sd.COE}
	if sd.Emitter {
		cfg.Emitter = emitFn(func(st scheduler.State) {
			if sd.SlowEmit {
				sim.Yield(engine.HsMisc) // an emitter that takes its time
			}
			sr.emit(r, si, st)
		})
		cfg.StateFlushFrequency = time.Duration(sd.FreqSteps)*engine.Q + time.Duration(sd.FreqOdd)
	}
	sched := cfg.New()
	handles := make([]*scheduler.ScheduledJob, len(sd.Jobs))
	depSlices := make([][]*scheduler.ScheduledJob, len(sd.Jobs))
	// publication of the per-job cancel functions to the job bodies that use
	// them (the user would hand them over through something synchronised)
	jpub := &sr.jpub
	enqueue := func(who int) {
		for j := range sd.Jobs {
			jd := &sd.Jobs[j]
			if jd.Enq != who {
				continue
			}
			var deps []*scheduler.ScheduledJob
			if k := jd.SameDeps - 1; k >= 0 && k < j && depSlices[k] != nil {
				if j%2 == 0 {
					deps = depSlices[k] // the same slice object again
				} else {
					deps = append(deps, depSlices[k]...) // copied from a slice that was passed to Enqueue before: the caller reads it again
				}
			} else {
				for _, k := range jd.Deps {
					deps = append(deps, handles[k])
				}
			}
			depSlices[j] = deps
			sim.Yield(engine.HsMisc)
			if sim.Aborted() {
				return
			}
			jctx := ctx
			if jd.Ctx != CtxShared {
				var jcancel context.CancelFunc
				if sd.CtxKind == 2 {
					cctx, ccancel := context.WithCancelCause(base)
					jctx, jcancel = cctx, func() { ccancel(errCause) }
				} else {
					jctx, jcancel = context.WithCancel(base)
				}
				sr.setJobCtx(j, jctx.Done(), jcancel)
				jpub.Add(1) // read-modify-write: a plain store by a second enqueuer would cut the release sequence of the first
				if jd.Ctx == CtxOwnDead {
					r.log(EvJobCancel, si, j)
					r.noteFault(&r.res.JobCtxCancelled)
					jcancel()
				}
			}
			r.log(EvEnqCall, si, j)
			sr.noteSubmit(len(deps) > 0)
			handles[j] = sched.Enqueue(jctx, scheduler.Job{Run: r.body(si, j), Dependencies: deps})
		}
	}
	enqueue(0)
	// The user must order every Enqueue before Wait; the harness's own join
	// (a hold the race detector cannot see) is therefore doubled by an atomic
	// counter that gives the race detector the same happens-before edge a
	// sync.WaitGroup would.
	var joined atomic.Int32
	for e := 1; e <= sd.Enqueuers; e++ {
		e := e
		go func() {
			sim.Yield(engine.HsStart)
			enqueue(e)
			sim.Yield(engine.HsMisc)
			joined.Add(1)
			sim.AddCounter(ctrEnqDone(si), 1)
			sim.Exit()
		}()
		sim.Yield(engine.HsMisc)
	}
	if sd.Enqueuers > 0 {
		sim.Hold(engine.HoldCounter, ctrEnqDone(si), sd.Enqueuers)
		_ = joined.Load()
	} else {
		sim.Yield(engine.HsMisc)
	}
	if sim.Aborted() {
		return // the run is over (budget, invalid, or quiescent without us): do not touch the scheduler
	}
	if sd.WaitAfterAll {
		sim.Hold(engine.HoldCounter, ctrEnded(si), len(sd.Jobs))
		// ... and only once the scheduler has come to rest: whatever the last result set off
		// inside it (a job made ready once more, say) has happened by then
		sim.Hold(engine.HoldQuiet, 0, 0)
		if sim.Aborted() {
			return
		}
	}
	wctx := ctx
	if sd.WaitCtx != 0 {
		var wcancel context.CancelFunc
		if sd.CtxKind == 2 {
			cctx, ccancel := context.WithCancelCause(base)
			wctx, wcancel = cctx, func() { ccancel(errCause) }
		} else {
			wctx, wcancel = context.WithCancel(base)
		}
		defer wcancel()
		sr.setWaitCancel(wcancel)
		sr.ctxPub.Store(true)
		sim.SetFlag(flagWaitCtxReady(si))
	}
	r.log(EvWaitCall, si, -1)
	err := sched.Wait(wctx)
	var ctxErr error
	if quietErr != nil && sd.WaitCtx == 0 {
		ctxErr = quietErr()
	} else {
		ctxErr = wctx.Err()
	}
	sim.Yield(engine.HsRet)
	if sim.Aborted() {
		return
	}
	r.log(EvWaitRet, si, -1)
	sr.setReturned(err, ctxErr)
	sim.SetFlag(flagReturned(si))
	cancel()
}

func (r *runner) canceller(si int) {
	sim := r.sim
	sr := r.res.SR[si]
	sim.Hold(engine.HoldFlag, flagCtxReady(si), 0)
	_ = sr.ctxPub.Load()
	for k := 0; k < sr.d.DelaySteps; k++ {
		sim.Yield(engine.HsMisc)
		if sim.Flag(flagReturned(si)) {
			break
		}
	}
	if sim.Aborted() {
		return
	}
	r.log(EvCancel, si, -1)
	_, cancel := sr.getCtx()
	cancel()
}

// waitCanceller cancels the separate context given to Wait.
func (r *runner) waitCanceller(si int) {
	sim := r.sim
	sr := r.res.SR[si]
	sim.Hold(engine.HoldFlag, flagWaitCtxReady(si), 0)
	_ = sr.ctxPub.Load()
	for k := 0; k < sr.d.WaitDelay; k++ {
		sim.Yield(engine.HsMisc)
		if sim.Flag(flagReturned(si)) {
			break
		}
	}
	if sim.Aborted() {
		return
	}
	r.log(EvWaitCancel, si, -1)
	sr.getWaitCancel()()
}

// Exec performs one simulated run of d. If d.Choices is non-nil (even empty)
// and replay is true the schedule is replayed from it.
func Exec(t *testing.T, d *Desc, replay bool, keepTrace bool, states map[uint64]struct{}) *Result {
	sim := &engine.Sim{Budget: d.Budget, FairAfter: d.FairAfter, KeepTrace: keepTrace, States: states}
	res := &Result{D: d, Sim: sim, Faults: map[string]int{}}
	njobs := 0
	maxFreq := 0
	for i := range d.Scheds {
		sd := &d.Scheds[i]
		sr := &schedRun{d: sd, limit: d.Limit(sd), token: new(int), states: make([]stateRep, 4096+16),
			jdone: make([]<-chan struct{}, len(sd.Jobs)), jcancel: make([]context.CancelFunc, len(sd.Jobs))}
		shared := &jobErr{s: i, j: -1}
		for j := range sd.Jobs {
			if sd.SharedErr {
				sr.errs = append(sr.errs, shared)
				continue
			}
			je := &jobErr{s: i, j: j}
			switch sd.Jobs[j].ErrWrap {
			case 1:
				je.wraps = context.DeadlineExceeded
			case 2:
				je.wraps = context.Canceled
			}
			sr.errs = append(sr.errs, je)
		}
		njobs += len(sd.Jobs)
		if sd.Emitter && sd.FreqSteps > maxFreq {
			maxFreq = sd.FreqSteps
		}
		res.SR = append(res.SR, sr)
	}
	res.Events = make([]Ev, 6*njobs+16*len(d.Scheds)+16)
	sim.IdleMax = maxFreq + 3
	if d.Prop == "C03" || d.Prop == "C03scale" {
		sim.CountEvery = 16
		if njobs > 500 {
			sim.CountEvery = 512
		}
	}
	if replay {
		sim.Ch = engine.ReplayChooser(d.Choices)
		sim.Pol = engine.NewPolicy("uniform", nil, 0)
	} else {
		sim.Ch = engine.NewChooser(d.Seed*1000003 + int64(d.Run))
		sim.Pol = engine.NewPolicy(d.Policy, sim.Ch.Rng(), d.Budget/8)
	}
	r := &runner{sim: sim, res: res, d: d}
	inv := &invChecker{r: r}
	sim.Inspect = inv.inspect
	res.LeakedBlocked = engine.RunBubble(t, sim, func() {
		for i := range d.Scheds {
			i := i
			sim.Go(i, func() { r.caller(i) })
			if d.Scheds[i].CancelMode == CancelExternal {
				sim.Go(100+i, func() { r.canceller(i) })
			}
			if d.Scheds[i].WaitCtx == 2 {
				sim.Go(200+i, func() { r.waitCanceller(i) })
			}
		}
		sim.Drive()
		res.Quiesced = !sim.OverBudget && sim.Invalid == ""
		res.AllReturned = true
		for _, sr := range res.SR {
			if !sr.isReturned() {
				res.AllReturned = false
			}
		}
		res.StuckDesc = sim.Describe()
		if res.Quiesced && res.AllReturned {
			// let fake time pass: a stopped ticker must stay silent
			sim.AdvanceIdle(2*maxFreq + 3)
			_, res.LeakDesc = sim.LiveSchedulerGoroutines()
		}
	})
	res.Events = res.Events[:res.nev]
	res.Hash = sim.Hash()
	res.Steps = sim.Steps
	res.Choices = sim.Ch.Rec
	res.Nontriv = sim.Ch.Nontrivial
	res.Trace = sim.Trace
	res.InvViol = inv.viol
	return res
}

//go:norace
func (sr *schedRun) isReturned() bool { return sr.returned }

var errGoexitMsg = "job exited unexpectedly"

func isGoexitErr(err error) bool { return err != nil && err.Error() == errGoexitMsg }

var _ = errors.Is

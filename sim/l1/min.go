//go:build verif && go1.25

package l1

import (
	"encoding/json"
	"strings"
	"testing"
	"time"
)

// MinimiseBudget bounds the wall-clock time spent shrinking one violation.
var MinimiseBudget = 20 * time.Second

func cloneDesc(d *Desc) *Desc {
	b, _ := json.Marshal(d)
	var c Desc
	_ = json.Unmarshal(b, &c)
	if c.Choices == nil {
		c.Choices = []uint32{}
	}
	return &c
}

func classKey(c string) string {
	if i := strings.Index(c, ":"); i >= 0 {
		return c[:i]
	}
	return c
}

// Find returns the first violation of prop whose class matches key.
func Find(v []Violation, prop, key string) *Violation {
	for i := range v {
		if v[i].Prop == prop && (key == "" || classKey(v[i].Class) == key) {
			return &v[i]
		}
	}
	return nil
}

// removeJob deletes job j of scheduler s, pruning edges.
func removeJob(d *Desc, s, j int) {
	sd := &d.Scheds[s]
	jobs := make([]JobD, 0, len(sd.Jobs)-1)
	for k, jd := range sd.Jobs {
		if k == j {
			continue
		}
		var deps []int
		for _, x := range jd.Deps {
			switch {
			case x == j:
			case x > j:
				deps = append(deps, x-1)
			default:
				deps = append(deps, x)
			}
		}
		jd.Deps = deps
		switch {
		case jd.SameDeps-1 == j:
			jd.SameDeps = 0
		case jd.SameDeps-1 > j:
			jd.SameDeps--
		}
		if jd.Ctx == CtxOwnCancelledBy {
			switch {
			case jd.CtxBy == j:
				jd.Ctx, jd.CtxBy = CtxOwnLive, 0 // its canceller is gone
			case jd.CtxBy > j:
				jd.CtxBy--
			}
		}
		jobs = append(jobs, jd)
	}
	sd.Jobs = jobs
}

// Minimise shrinks a failing descriptor (schedule first, then workload and
// faults) while a violation of the same property and class persists. The
// returned descriptor replays from its choice list.
func Minimise(t *testing.T, d *Desc, prop, class string, maxTrials int) (*Desc, *Result, int) {
	key := classKey(class)
	trials := 0
	deadline := time.Now().Add(MinimiseBudget)
	try := func(c *Desc) (*Result, bool) {
		if time.Now().After(deadline) {
			trials = maxTrials // wall-clock budget used up: stop shrinking, keep what we have
			return nil, false
		}
		if !c.Valid() {
			return nil, false // e.g. fewer barrier parties than the barrier needs: the symptom would be the harness's
		}
		trials++
		r := Exec(t, c, true, false, nil)
		return r, Find(Check(r), prop, key) != nil
	}
	best := cloneDesc(d)
	bestRes, ok := try(best)
	if !ok {
		return nil, nil, trials // does not replay: caller reports as invalid
	}
	// normalise: continue from the choices actually consumed
	accept := func(c *Desc, r *Result) {
		best, bestRes = c, r
	}
	for round := 0; round < 4 && trials < maxTrials; round++ {
		progress := false
		// 1. truncate the schedule (suffix falls back to "first candidate")
		lo, hi := 0, len(best.Choices)
		for lo < hi && trials < maxTrials {
			mid := (lo + hi) / 2
			c := cloneDesc(best)
			c.Choices = c.Choices[:mid]
			if r, ok := try(c); ok {
				accept(c, r)
				hi = mid
				progress = true
			} else {
				lo = mid + 1
			}
		}
		// 2. structural reductions of the workload
		for s := len(best.Scheds) - 1; s >= 0 && len(best.Scheds) > 1 && trials < maxTrials; s-- {
			c := cloneDesc(best)
			c.Scheds = append(c.Scheds[:s], c.Scheds[s+1:]...)
			if r, ok := try(c); ok {
				accept(c, r)
				progress = true
			}
		}
		for s := 0; s < len(best.Scheds); s++ {
			for j := len(best.Scheds[s].Jobs) - 1; j >= 0 && trials < maxTrials; j-- {
				c := cloneDesc(best)
				removeJob(c, s, j)
				if r, ok := try(c); ok {
					accept(c, r)
					progress = true
				}
			}
			mut := []func(sd *SchedD) bool{
				func(sd *SchedD) bool { x := sd.Emitter; sd.Emitter = false; return x },
				func(sd *SchedD) bool {
					x := sd.Enqueuers > 0
					sd.Enqueuers = 0
					for i := range sd.Jobs {
						sd.Jobs[i].Enq = 0
					}
					return x
				},
				func(sd *SchedD) bool {
					x := sd.CancelMode != 0
					sd.CancelMode = 0
					for i := range sd.Jobs {
						sd.Jobs[i].Stuck = false
					}
					return x
				},
				func(sd *SchedD) bool {
					x := sd.N > 1
					if x {
						sd.N--
					}
					return x
				},
				func(sd *SchedD) bool {
					x := sd.N > 2
					if x {
						sd.N = 1
					}
					return x
				},
				func(sd *SchedD) bool { x := sd.FreqSteps > 0; sd.FreqSteps = 0; return x },
				func(sd *SchedD) bool { x := sd.WaitCtx != 0; sd.WaitCtx = 0; return x },
				func(sd *SchedD) bool { x := sd.SharedErr; sd.SharedErr = false; return x },
				func(sd *SchedD) bool { x := sd.SlowEmit; sd.SlowEmit = false; return x },
				func(sd *SchedD) bool { x := sd.CtxKind != 0; sd.CtxKind = 0; return x },
				func(sd *SchedD) bool { x := sd.WaitDelay > 0; sd.WaitDelay /= 2; return x },
				func(sd *SchedD) bool { x := sd.DelaySteps > 0; sd.DelaySteps /= 2; return x },
			}
			for _, m := range mut {
				if trials >= maxTrials {
					break
				}
				c := cloneDesc(best)
				if !m(&c.Scheds[s]) {
					continue
				}
				if r, ok := try(c); ok {
					accept(c, r)
					progress = true
				}
			}
			for j := 0; j < len(best.Scheds[s].Jobs) && trials < maxTrials; j++ {
				jm := []func(jd *JobD) bool{
					func(jd *JobD) bool { x := jd.Out != 0; jd.Out = 0; return x },
					func(jd *JobD) bool { x := jd.Len > 0; jd.Len = 0; return x },
					func(jd *JobD) bool { x := jd.Cancel; jd.Cancel = false; return x },
					func(jd *JobD) bool { x := jd.Stuck; jd.Stuck = false; return x },
					func(jd *JobD) bool { x := len(jd.Deps) > 0; jd.Deps, jd.SameDeps = nil, 0; return x },
					func(jd *JobD) bool { x := jd.SameDeps > 0; jd.SameDeps = 0; return x },
					func(jd *JobD) bool { x := jd.Ctx != CtxShared; jd.Ctx, jd.CtxBy = CtxShared, 0; return x },
				}
				for _, m := range jm {
					c := cloneDesc(best)
					if !m(&c.Scheds[s].Jobs[j]) {
						continue
					}
					if r, ok := try(c); ok {
						accept(c, r)
						progress = true
					}
				}
			}
		}
		// 3. simplify individual choices (delete, then zero), coarse to fine
		for chunk := len(best.Choices) / 2; chunk >= 1 && trials < maxTrials; chunk /= 2 {
			for at := 0; at+chunk <= len(best.Choices) && trials < maxTrials; {
				c := cloneDesc(best)
				c.Choices = append(append([]uint32{}, c.Choices[:at]...), c.Choices[at+chunk:]...)
				if r, ok := try(c); ok {
					accept(c, r)
					progress = true
					continue
				}
				allZero := true
				for _, v := range best.Choices[at : at+chunk] {
					if v != 0 {
						allZero = false
					}
				}
				if !allZero {
					c = cloneDesc(best)
					for i := at; i < at+chunk; i++ {
						c.Choices[i] = 0
					}
					if r, ok := try(c); ok {
						accept(c, r)
						progress = true
					}
				}
				at += chunk
			}
		}
		if !progress {
			break
		}
	}
	// final run with trace for the replay file
	final := Exec(t, best, true, true, nil)
	if Find(Check(final), prop, key) == nil {
		return nil, nil, trials
	}
	_ = bestRes
	return best, final, trials
}

//go:build verif && go1.25

package l1

import (
	"context"
	"errors"
	"fmt"
	"sort"
	"strings"

	"cffverif/engine"

	"go.uber.org/multierr"
)

// Violation of a property, with a class used to decide "same violation"
// during minimisation and in the known-findings file.
type Violation struct {
	Prop  string `json:"prop"`
	Class string `json:"class"`
	Msg   string `json:"msg"`
}

// invChecker evaluates the at-every-step invariants (C03).
type invChecker struct {
	r    *runner
	viol []Violation
	seen map[string]bool
}

func (c *invChecker) add(prop, class, msg string) {
	if c.seen == nil {
		c.seen = map[string]bool{}
	}
	if c.seen[prop+class] {
		return
	}
	c.seen[prop+class] = true
	c.viol = append(c.viol, Violation{prop, class, msg})
}

//go:norace
func (c *invChecker) inspect(s *engine.Sim) {
	r := c.r
	for i, sr := range r.res.SR {
		if sr.inflight > sr.limit {
			c.add("C03", "inflight>limit", fmt.Sprintf("scheduler %d: %d job bodies executing at once, limit %d (step %d)", i, sr.inflight, sr.limit, s.Steps))
		}
	}
	for i := 0; i < s.NumScheds() && i < len(r.res.SR); i++ {
		w, o, _ := s.LiveOfSched(i)
		dying := s.DyingOfSched(i)
		lim := r.res.SR[r.schedOrder(i)].limit
		if w-dying > lim {
			c.add("C03", "workers>limit", fmt.Sprintf("scheduler %d: %d live worker goroutines (%d of them dying), limit %d (step %d)", i, w, dying, lim, s.Steps))
		}
		if o > 2 {
			c.add("C03", "extra-goroutines", fmt.Sprintf("scheduler %d: %d non-worker scheduler goroutines alive", i, o))
		}
	}
	if s.MaxUnregistered > 1 {
		c.add("C03", "unaccounted-goroutines", fmt.Sprintf("%d goroutines alive in the bubble besides workers, loop, spawner and harness goroutines (step %d)", s.MaxUnregistered, s.Steps))
	}
	if n := s.ForeignLive(); n > 0 {
		c.add("C03", "foreign-goroutines", fmt.Sprintf("%d goroutines that neither the harness nor the scheduler's worker/loop/spawner sites started are alive inside user-visible callbacks (step %d)", n, s.Steps))
	}
}

// schedOrder maps the i-th scheduler created in the run to its descriptor
// index. Callers are started in order but may reach Config.New in any order.
//
//go:norace
func (r *runner) schedOrder(i int) int {
	tag := r.sim.CallerTagOfSched(i)
	if tag >= 0 && tag < len(r.res.SR) {
		return tag
	}
	return 0
}

// Check evaluates every L1 oracle over the finished run.
func Check(res *Result) []Violation {
	var out []Violation
	add := func(prop, class, msg string) { out = append(out, Violation{prop, class, msg}) }
	out = append(out, res.InvViol...)
	d := res.D
	sim := res.Sim

	if sim.Invalid != "" {
		return out // invalid runs are counted, never judged
	}

	// ---- C05 termination ----
	if sim.OverBudget && res.AllReturned {
		add("C06", "leak:still-running", fmt.Sprintf("every caller has returned, yet scheduler goroutines keep running past the step budget %d (fair scheduling since step %d); live: %s", d.Budget, d.FairAfter, strings.Join(res.StuckDesc, "; ")))
		return out
	}
	if sim.OverBudget {
		add("C05", "livelock", fmt.Sprintf("step budget %d exceeded (fair scheduling since step %d); live: %s", d.Budget, d.FairAfter, strings.Join(res.StuckDesc, "; ")))
		return out
	}
	if !res.AllReturned {
		prop, class := "C05", "deadlock:"+stuckClass(res.StuckDesc)
		msg := "system quiescent but a caller has not returned from Enqueue/Wait; live goroutines: " + strings.Join(res.StuckDesc, "; ")
		for si, sr := range res.SR {
			if sr.returned {
				continue
			}
			stuck, cancelled := false, false
			for _, j := range sr.d.Jobs {
				stuck = stuck || j.Stuck
			}
			for _, e := range res.Events {
				if e.S == si && (e.Kind == EvCancel || e.Kind == EvWaitCancel) {
					cancelled = true
				}
			}
			if stuck && cancelled {
				add("C09", "not-prompt", fmt.Sprintf("s%d: the context is done but Wait does not return while jobs are still running; %s", si, msg))
			}
		}
		// stuck with work left and fewer worker goroutines alive than the limit: the capacity went away
		for i := 0; i < sim.NumScheds(); i++ {
			tag := sim.CallerTagOfSched(i)
			if tag < 0 || tag >= len(res.SR) || res.SR[tag].returned {
				continue
			}
			if w, _, ok := sim.LiveOfSched(i); ok && w < res.SR[tag].limit && strings.Contains(msg, "(loop)") {
				add("C03", "capacity-lost:workers-gone", fmt.Sprintf("s%d: the scheduler is stuck with jobs left and only %d of its %d worker goroutines alive; %s", tag, w, res.SR[tag].limit, msg))
			}
		}
		for _, sr := range res.SR {
			if sr.d.Barrier && !sr.returned {
				add("C03", "capacity-lost", fmt.Sprintf("barrier of %d simultaneously running jobs never completed: fewer than %d jobs can run at once; %s", sr.limit, sr.limit, msg))
			}
		}
		add(prop, class, msg)
		return out
	}

	// ---- C06 leaks ----
	if len(res.LeakDesc) > 0 {
		add("C06", "leak:"+stuckClass(res.LeakDesc), "after every caller returned and all started jobs finished, scheduler goroutines are still alive: "+strings.Join(res.LeakDesc, "; "))
	} else if res.LeakedBlocked {
		add("C06", "leak:blocked-unregistered", "synctest reports goroutines blocked forever at the end of the run")
	}

	// per scheduler histories
	type jinfo struct {
		start, end, enq int
		starts          int
	}
	for si, sr := range res.SR {
		sd := sr.d
		nj := len(sd.Jobs)
		ji := make([]jinfo, nj)
		cancelSeq := 0
		waitRet := 0
		jcancel := make([]int, nj) // sequence number at which the job's own context was cancelled (0: never / shared)
		dynamicCtx := false        // some own context is cancelled at a schedule-dependent instant
		for j := 0; j < nj; j++ {
			if sd.Jobs[j].Ctx == CtxOwnCancelledBy {
				dynamicCtx = true
			}
		}
		for _, e := range res.Events {
			if e.S != si {
				continue
			}
			switch e.Kind {
			case EvJobCancel:
				if jcancel[e.J] == 0 {
					jcancel[e.J] = e.Seq
				}
			case EvEnqCall:
				ji[e.J].enq = e.Seq
			case EvStart:
				ji[e.J].starts++
				if ji[e.J].start == 0 {
					ji[e.J].start = e.Seq
				}
			case EvEnd:
				ji[e.J].end = e.Seq
			case EvCancel:
				if cancelSeq == 0 {
					cancelSeq = e.Seq
				}
			case EvWaitRet:
				waitRet = e.Seq
			}
		}
		dead := func(j int) bool { return sd.Jobs[j].Ctx == CtxOwnDead } // never allowed to start; its dependents neither
		failed := func(j int) bool { return sd.Jobs[j].Out != OutOK || dead(j) }

		// ---- C01 ----
		for j := 0; j < nj; j++ {
			if ji[j].starts > 1 {
				add("C01", "ran-twice", fmt.Sprintf("s%d: job %d was started %d times", si, j, ji[j].starts))
			}
			if ji[j].start == 0 {
				continue
			}
			for _, k := range sd.Jobs[j].Deps {
				switch {
				case ji[k].end == 0 || ji[k].end > ji[j].start:
					add("C01", "before-dep", fmt.Sprintf("s%d: job %d started (#%d) before its dependency %d finished (start #%d end #%d)", si, j, ji[j].start, k, ji[k].start, ji[k].end))
				case failed(k):
					add("C01", "after-failed-dep", fmt.Sprintf("s%d: job %d started although its dependency %d failed", si, j, k))
				}
			}
		}

		// model: jobs whose transitive dependencies all succeed
		runnable := make([]bool, nj)
		for j := 0; j < nj; j++ {
			ok := true
			for _, k := range sd.Jobs[j].Deps {
				if !runnable[k] || failed(k) {
					ok = false
				}
			}
			runnable[j] = ok
		}
		cancelled := cancelSeq != 0 && (waitRet == 0 || cancelSeq < waitRet)
		// ctxCancelledAtRet is the exact fact for the caller: ctx.Err() read
		// in the same step in which Wait returned.
		ctxAtRet := sr.ctxErrAtRet != nil
		err := sr.waitErr

		attributable := func(e error) (job int, isCtx bool) {
			var je *jobErr
			if errors.As(e, &je) && je.s == si {
				if je.j < 0 {
					return -3, false // the sentinel every failing job of this scheduler returns
				}
				return je.j, false
			}
			if sr.ctxErrAtRet != nil && errors.Is(e, sr.ctxErrAtRet) {
				return -1, true
			}
			if cancelSeq != 0 && (e == context.Canceled || e == context.DeadlineExceeded) {
				return -1, true // the jobs' context was cancelled (Wait may have been given another one)
			}
			if errors.Is(e, context.Canceled) {
				// the error of a job's own context, for a job that was skipped because of it
				for j := 0; j < nj; j++ {
					if jcancel[j] != 0 && ji[j].start == 0 {
						return -1, true
					}
				}
			}
			return -2, false
		}

		if !sd.COE {
			// ---- C07 ----
			if err == nil {
				if ctxAtRet {
					add("C07", "nil-but-cancelled", fmt.Sprintf("s%d: Wait returned nil although its context was already done when it returned", si))
				}
				for j := 0; j < nj; j++ {
					if ji[j].starts != 1 || ji[j].end == 0 || failed(j) {
						add("C07", "nil-but-incomplete", fmt.Sprintf("s%d: Wait returned nil but job %d has starts=%d ended=%v failed=%v", si, j, ji[j].starts, ji[j].end != 0, failed(j)))
						break
					}
				}
			} else {
				job, isCtx := attributable(err)
				switch {
				case isCtx:
				case job == -3:
					any := false
					for j := 0; j < nj; j++ {
						if sd.Jobs[j].Out == OutErr && ji[j].end != 0 {
							any = true
						}
					}
					if !any {
						add("C07", "error-of-job-that-did-not-fail", fmt.Sprintf("s%d: Wait returned the jobs' error value, but no job failed in this run", si))
					}
				case job >= 0:
					if ji[job].end == 0 || sd.Jobs[job].Out != OutErr {
						add("C07", "error-of-job-that-did-not-fail", fmt.Sprintf("s%d: Wait returned the error of job %d, which did not fail in this run", si, job))
					}
				case isGoexitErr(err):
					any := false
					for j := 0; j < nj; j++ {
						if sd.Jobs[j].Out == OutGoexit && ji[j].end != 0 {
							any = true
						}
					}
					if !any {
						add("C07", "unattributable-error", fmt.Sprintf("s%d: Wait returned %q but no job exited its goroutine", si, err))
					}
				default:
					add("C07", "unattributable-error", fmt.Sprintf("s%d: Wait returned %q which is neither a failed job's error nor the context's", si, err))
				}
			}
			for j := 0; j < nj; j++ {
				if failed(j) && ji[j].end != 0 && ji[j].end < waitRet && err == nil {
					add("C07", "failure-swallowed", fmt.Sprintf("s%d: job %d failed but Wait returned nil", si, j))
				}
			}
		} else {
			// ---- C08 ----
			errsList := multierr.Errors(err)
			if err != nil && sr.ctxErrAtRet != nil && err == sr.ctxErrAtRet {
				// Wait left through the context: exactly the context error.
			} else {
				seen := map[int]int{}
				ctxEntries, goexitEntries, sharedEntries := 0, 0, 0
				for _, e := range errsList {
					job, isCtx := attributable(e)
					switch {
					case isCtx:
						ctxEntries++
					case job == -3:
						sharedEntries++
					case job >= 0:
						seen[job]++
					case isGoexitErr(e):
						goexitEntries++
					default:
						add("C08", "foreign-entry", fmt.Sprintf("s%d: returned error contains %q, which is no job's error and not the context's (internal sentinel?)", si, e))
					}
				}
				notStarted, goexits, sharedWant := 0, 0, 0
				for j := 0; j < nj; j++ {
					if ji[j].start == 0 {
						notStarted++
					}
					if ji[j].end != 0 && sd.Jobs[j].Out == OutGoexit {
						goexits++
					}
					want := 0
					if ji[j].end != 0 && sd.Jobs[j].Out == OutErr {
						want = 1
					}
					if sd.SharedErr {
						sharedWant += want
						continue
					}
					if seen[j] != want {
						add("C08", "entry-count", fmt.Sprintf("s%d: job %d failed=%v but its error appears %d times in the returned error", si, j, want == 1, seen[j]))
					}
				}
				if sd.SharedErr && sharedEntries != sharedWant {
					add("C08", "entry-count", fmt.Sprintf("s%d: %d jobs failed, all with the same error value, but that value appears %d times in the returned error", si, sharedWant, sharedEntries))
				}
				if goexitEntries != goexits {
					add("C08", "entry-count", fmt.Sprintf("s%d: %d jobs exited their goroutine but %d such entries are reported", si, goexits, goexitEntries))
				}
				ownCancelled := false
				for j := 0; j < nj; j++ {
					if jcancel[j] != 0 {
						ownCancelled = true
					}
				}
				if ctxEntries > 0 && !cancelled && !ctxAtRet && !ownCancelled {
					add("C08", "ctx-entry-without-cancel", fmt.Sprintf("s%d: context error reported but the context was never cancelled", si))
				}
				if ctxEntries > notStarted+1 {
					add("C08", "ctx-entry-count", fmt.Sprintf("s%d: %d context errors for %d skipped jobs", si, ctxEntries, notStarted))
				}
			}
			if cancelSeq == 0 && !dynamicCtx && sr.ctxErrAtRet == nil {
				for j := 0; j < nj; j++ {
					if dead(j) {
						continue // judged by C09 below
					}
					if runnable[j] && ji[j].starts != 1 {
						add("C08", "runnable-not-run", fmt.Sprintf("s%d: job %d has all dependencies succeeded but was started %d times", si, j, ji[j].starts))
					}
					if !runnable[j] && ji[j].starts != 0 {
						add("C08", "downstream-of-failure-ran", fmt.Sprintf("s%d: job %d is downstream of a failure but was started", si, j))
					}
				}
				anyFail := false
				for j := 0; j < nj; j++ {
					if runnable[j] && failed(j) {
						anyFail = true
					}
				}
				if anyFail != (err != nil) {
					add("C08", "error-presence", fmt.Sprintf("s%d: some runnable job failed=%v but Wait returned err=%v", si, anyFail, err))
				}
			}
		}

		// ---- C09 ----
		if sr.ctxBad > 0 {
			add("C09", "ctx-identity", fmt.Sprintf("s%d: %d job bodies received a context that is not the one given to Enqueue", si, sr.ctxBad))
		}
		if ctxAtRet && err == nil {
			add("C09", "nil-after-cancel", fmt.Sprintf("s%d: context was done when Wait returned, yet Wait returned nil", si))
		}
		if cancelSeq != 0 {
			// jobs inside their bodies at the cancellation instant
			inside := 0
			var cancellers []int
			for j := 0; j < nj; j++ {
				if ji[j].start != 0 && ji[j].start < cancelSeq && (ji[j].end == 0 || ji[j].end > cancelSeq) {
					inside++
				}
			}
			for _, e := range res.Events {
				if e.S == si && e.Kind == EvCancel && e.J >= 0 && e.Seq == cancelSeq {
					cancellers = append(cancellers, e.J)
				}
			}
			down := make([]bool, nj)
			for j := 0; j < nj; j++ {
				for _, k := range sd.Jobs[j].Deps {
					if down[k] {
						down[j] = true
					}
					for _, c := range cancellers {
						if k == c {
							down[j] = true
						}
					}
				}
			}
			for j := 0; j < nj; j++ {
				if ji[j].start == 0 || ji[j].start < cancelSeq {
					continue
				}
				if sd.Jobs[j].Ctx != CtxShared {
					continue // enqueued with a context of its own: the scheduler's context does not govern it
				}
				switch {
				case down[j]:
					add("C09", "started-after-cancel:dependent", fmt.Sprintf("s%d: job %d depends on the job that cancelled the context (#%d) and was still started (#%d)", si, j, cancelSeq, ji[j].start))
				case ji[j].enq > cancelSeq:
					add("C09", "started-after-cancel:enqueued-later", fmt.Sprintf("s%d: job %d was enqueued (#%d) after the cancellation (#%d) and was still started (#%d)", si, j, ji[j].enq, cancelSeq, ji[j].start))
				case inside >= sr.limit:
					add("C09", "started-after-cancel:no-free-worker", fmt.Sprintf("s%d: all %d workers were inside job bodies at the cancellation (#%d), yet job %d was started afterwards (#%d)", si, sr.limit, cancelSeq, j, ji[j].start))
				}
			}
		}

		// per-job contexts: a job whose own context was done before it could start must not start
		for j := 0; j < nj; j++ {
			if jcancel[j] == 0 || ji[j].start == 0 || ji[j].start < jcancel[j] {
				continue
			}
			switch sd.Jobs[j].Ctx {
			case CtxOwnDead:
				add("C09", "started-after-cancel:enqueued-later", fmt.Sprintf("s%d: job %d was enqueued with a context that was already cancelled (#%d) and was still started (#%d)", si, j, jcancel[j], ji[j].start))
			case CtxOwnCancelledBy:
				by := sd.Jobs[j].CtxBy
				if by != j && dependsOn(sd, j, by) {
					add("C09", "started-after-cancel:dependent", fmt.Sprintf("s%d: job %d depends on job %d, which cancelled job %d's context (#%d) before it finished, and was still started (#%d)", si, j, by, j, jcancel[j], ji[j].start))
				}
			}
		}

		// ---- C19 ----
		for k := 0; k < sr.nstates; k++ {
			rep := sr.states[k]
			st := rep.St
			ex := st.Pending - st.Ready - st.Waiting
			switch {
			case st.Pending < 0 || st.Ready < 0 || st.Waiting < 0 || st.IdleWorkers < 0 || st.Concurrency < 0:
				add("C19", "negative", fmt.Sprintf("s%d: report %+v has a negative count", si, st))
			case st.Concurrency != sr.limit:
				add("C19", "concurrency-field", fmt.Sprintf("s%d: report %+v: Concurrency != configured limit %d", si, st, sr.limit))
			case ex < 0:
				add("C19", "executing<0", fmt.Sprintf("s%d: report %+v: Pending-Ready-Waiting = %d < 0", si, st, ex))
			case ex > st.Concurrency:
				add("C19", "executing>concurrency", fmt.Sprintf("s%d: report %+v: executing = Pending-Ready-Waiting = %d exceeds Concurrency", si, st, ex))
			case st.IdleWorkers != st.Concurrency-ex:
				add("C19", "idle-arithmetic", fmt.Sprintf("s%d: report %+v: IdleWorkers != Concurrency - executing (%d)", si, st, st.Concurrency-ex))
			case st.Pending > rep.Submitted:
				add("C19", "pending>submitted", fmt.Sprintf("s%d: report %+v: Pending exceeds the %d jobs submitted so far", si, st, rep.Submitted))
			case st.Waiting > rep.SubmittedDeps:
				add("C19", "waiting>submitted-with-deps", fmt.Sprintf("s%d: report %+v: Waiting exceeds the %d submitted jobs that have dependencies", si, st, rep.SubmittedDeps))
			}
			if rep.AfterRet && (err == nil || !errors.Is(err, sr.ctxErrAtRet) || sr.ctxErrAtRet == nil) {
				add("C19", "report-after-wait", fmt.Sprintf("s%d: state report %+v emitted after Wait had returned (err=%v) from a finished scheduler", si, st, err))
			}
		}

		// ---- C03 (end of run part) ----
		if sr.maxInfl > sr.limit {
			add("C03", "inflight>limit", fmt.Sprintf("s%d: %d job bodies executed at once, limit %d", si, sr.maxInfl, sr.limit))
		}
	}
	for i := 0; i < sim.NumScheds() && i < len(res.SR); i++ {
		tag := sim.CallerTagOfSched(i)
		if tag < 0 || tag >= len(res.SR) {
			continue
		}
		sr := res.SR[tag]
		created := sim.CreatedOfSched(i)
		if created > sr.limit+2+res.GoexitFired {
			add("C03", "goroutines-created", fmt.Sprintf("scheduler %d created %d goroutines; limit %d + 2 + %d worker deaths", i, created, sr.limit, res.GoexitFired))
		}
	}
	return dedupe(out)
}

// dependsOn reports whether job j transitively depends on job k.
func dependsOn(sd *SchedD, j, k int) bool {
	seen := map[int]bool{}
	var walk func(x int) bool
	walk = func(x int) bool {
		if seen[x] {
			return false
		}
		seen[x] = true
		for _, d := range sd.Jobs[x].Deps {
			if d == k || walk(d) {
				return true
			}
		}
		return false
	}
	return walk(j)
}

func dedupe(v []Violation) []Violation {
	seen := map[string]bool{}
	var out []Violation
	for _, x := range v {
		k := x.Prop + "|" + x.Class
		if !seen[k] {
			seen[k] = true
			out = append(out, x)
		}
	}
	return out
}

// stuckClass abstracts a list of live goroutine descriptions into a class:
// the sorted set of (kind, where) without goroutine numbers.
func stuckClass(desc []string) string {
	set := map[string]bool{}
	for _, d := range desc {
		if i := strings.Index(d, "("); i >= 0 {
			d = d[i:]
		}
		set[d] = true
	}
	var ks []string
	for k := range set {
		ks = append(ks, k)
	}
	sort.Strings(ks)
	return strings.Join(ks, ",")
}

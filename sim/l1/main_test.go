//go:build verif && go1.25

//go:debug asynctimerchan=0

package l1

import (
	"encoding/json"
	"flag"
	"fmt"
	"math/rand"
	"os"
	"path/filepath"
	"runtime"
	"sort"
	"strconv"
	"strings"
	"testing"
	"time"

	"cffverif/engine"
)

var (
	fProp      = flag.String("sim.prop", "C01", "property whose population and oracle to use")
	fTier      = flag.String("sim.tier", "quick", "quick|thorough")
	fSeed      = flag.Int64("sim.seed", 1, "VERIF_SEED")
	fProc      = flag.Int("sim.proc", 0, "process index (decorrelates processes)")
	fRuns      = flag.Int("sim.runs", 0, "max runs (0 = unlimited)")
	fSkip      = flag.String("sim.skip", "", "comma-separated run indices to skip (runs in which the toolchain's race runtime is known to die)")
	fFrom      = flag.Int("sim.from", 0, "index of the first run (runs are seeded independently: seed, proc, run)")
	fSecs      = flag.Float64("sim.secs", 10, "wall-clock budget in seconds")
	fOut       = flag.String("sim.out", "", "summary JSON output file")
	fReplayDir = flag.String("sim.replaydir", "", "directory for replay files")
	fReplay    = flag.String("sim.replay", "", "replay file to re-execute")
	fSelfTest  = flag.Int("sim.selftest", 0, "determinism self-test over this many runs")
	fHashLog   = flag.String("sim.hashlog", "", "write 'run hash steps' lines (determinism diff across processes)")
	fBegin     = flag.String("sim.beginlog", "", "file receiving a BEGIN line before each run")
	fMaxViol   = flag.Int("sim.maxviol", 3, "stop after this many distinct violations")
	fReport    = flag.String("sim.report", "", "report violations of this property instead of -sim.prop's (population unchanged)")
	fVerbose   = flag.Bool("sim.v", false, "print traces in replay mode")
)

// Replay is the on-disk replay file.
type Replay struct {
	Property  string    `json:"property"`
	Class     string    `json:"class"`
	Message   string    `json:"message"`
	Engine    string    `json:"engine"`
	TraceHash string    `json:"trace_hash"`
	Steps     int       `json:"steps"`
	Desc      *Desc     `json:"desc"`
	History   []string  `json:"history,omitempty"`
	Trace     []string  `json:"trace,omitempty"`
	Found     FoundInfo `json:"found"`
	// FromSeed: re-run the search-mode execution identified by desc.seed/run
	// (used when the process died before a choice list could be recorded).
	FromSeed bool `json:"from_seed,omitempty"`
}

type FoundInfo struct {
	Seed        int64 `json:"seed"`
	Proc        int   `json:"proc"`
	Run         int   `json:"run"`
	OrigSteps   int   `json:"orig_steps"`
	OrigChoices int   `json:"orig_choices"`
	OrigJobs    int   `json:"orig_jobs"`
	MinTrials   int   `json:"min_trials"`
}

// Summary is what one process reports.
type Summary struct {
	Prop         string            `json:"prop"`
	Tier         string            `json:"tier"`
	Seed         int64             `json:"seed"`
	Proc         int               `json:"proc"`
	GOMAXPROCS   int               `json:"gomaxprocs"`
	Runs         int               `json:"runs"`
	Steps        int64             `json:"steps"`
	WallS        float64           `json:"wall_s"`
	Invalid      map[string]int    `json:"invalid"`
	Faults       map[string]int    `json:"faults_fired"`
	Probes       map[string]int    `json:"probes"`
	Policies     map[string]int    `json:"policies"`
	Nontrivial   int               `json:"nontrivial_runs"`
	Interleave   []uint64          `json:"interleaving_hashes"`
	States       []uint64          `json:"state_hashes"`
	Samples      []json.RawMessage `json:"samples"`
	Violations   []ViolOut         `json:"violations"`
	Unreplayable int               `json:"unreplayable"`
	JobsTotal    int64             `json:"jobs_total"`
	MaxJobs      int               `json:"max_jobs"`
	OtherProps   map[string]int    `json:"other_property_violations"`
}

type ViolOut struct {
	Prop   string `json:"prop"`
	Class  string `json:"class"`
	Msg    string `json:"msg"`
	Replay string `json:"replay"`
}

func TestMain(m *testing.M) {
	flag.Parse()
	engine.Install()
	os.Exit(m.Run())
}

func historyLines(res *Result) []string {
	var out []string
	for _, e := range res.Events {
		out = append(out, e.String())
	}
	for si, sr := range res.SR {
		out = append(out, fmt.Sprintf("s%d: Wait returned err=%v ctxErrAtReturn=%v returned=%v maxInflight=%d stateReports=%d", si, sr.waitErr, sr.ctxErrAtRet, sr.returned, sr.maxInfl, sr.nstates))
	}
	return out
}

func writeReplay(dir string, rp *Replay) string {
	_ = os.MkdirAll(dir, 0o755)
	name := fmt.Sprintf("%s_l1_%s_s%d_p%d_r%d.json", rp.Property, sanitize(classKey(rp.Class)), rp.Found.Seed, rp.Found.Proc, rp.Found.Run)
	path := filepath.Join(dir, name)
	rp.History, rp.Trace = clip(rp.History, 600), clip(rp.Trace, 3000)
	b, _ := json.MarshalIndent(rp, "", " ")
	if len(b) > 4<<20 {
		b, _ = json.Marshal(rp) // very large workloads: compact encoding
	}
	_ = os.WriteFile(path, b, 0o644)
	return path
}

// clip keeps the head and the tail of a long listing (the replay re-creates
// the full one with ./check replay).
func clip(l []string, n int) []string {
	if len(l) <= n {
		return l
	}
	out := append([]string{}, l[:n/2]...)
	out = append(out, fmt.Sprintf("... %d lines omitted (re-run ./check replay <file> for the full listing) ...", len(l)-n))
	return append(out, l[len(l)-n/2:]...)
}

func sanitize(s string) string {
	b := []byte(s)
	for i, c := range b {
		if !(c >= 'a' && c <= 'z' || c >= 'A' && c <= 'Z' || c >= '0' && c <= '9' || c == '-') {
			b[i] = '_'
		}
	}
	if len(b) > 40 {
		b = b[:40]
	}
	return string(b)
}

func interleavingHash(d *Desc, res *Result) uint64 {
	c := cloneDesc(d)
	c.Choices = nil
	c.Seed, c.Run, c.Policy = 0, 0, ""
	b, _ := json.Marshal(c)
	h := uint64(14695981039346656037)
	for _, x := range b {
		h ^= uint64(x)
		h *= 1099511628211
	}
	return h ^ res.Hash*0x9e3779b97f4a7c15
}

func TestSim(t *testing.T) {
	if *fReplay != "" {
		doReplay(t)
		return
	}
	if *fSelfTest > 0 {
		doSelfTest(t)
		return
	}
	prop := *fProp
	gmp := runtime.GOMAXPROCS(0)
	sum := &Summary{Prop: prop, Tier: *fTier, Seed: *fSeed, Proc: *fProc, GOMAXPROCS: gmp,
		Invalid: map[string]int{}, Faults: map[string]int{}, Probes: map[string]int{}, Policies: map[string]int{}, OtherProps: map[string]int{}}
	states := map[uint64]struct{}{}
	inter := map[uint64]struct{}{}
	start := time.Now()
	var beginF, hashF *os.File
	if *fBegin != "" {
		beginF, _ = os.Create(*fBegin)
		defer beginF.Close()
	}
	if *fHashLog != "" {
		hashF, _ = os.Create(*fHashLog)
		defer hashF.Close()
	}
	seenClass := map[string]bool{}
	skip := map[int]bool{}
	for _, f := range strings.Split(*fSkip, ",") {
		if n, err := strconv.Atoi(strings.TrimSpace(f)); err == nil {
			skip[n] = true
		}
	}
	for run := *fFrom; ; run++ {
		if *fRuns > 0 && run >= *fFrom+*fRuns {
			break
		}
		if skip[run] {
			continue
		}
		if *fSecs > 0 && time.Since(start).Seconds() > *fSecs {
			break
		}
		rng := rand.New(rand.NewSource(*fSeed*1000003 + int64(*fProc)*7919 + int64(run)*104729))
		genRun = run
		d := Generate(rng, prop, *fTier, gmp)
		d.Seed, d.Run = *fSeed*1000+int64(*fProc), run
		if beginF != nil {
			b, _ := json.Marshal(d)
			fmt.Fprintf(beginF, "BEGIN %s\n", b)
		}
		res := Exec(t, d, false, false, states)
		sum.Runs++
		sum.Steps += int64(res.Steps)
		sum.Policies[d.Policy]++
		nj := 0
		for _, s := range d.Scheds {
			nj += len(s.Jobs)
		}
		sum.JobsTotal += int64(nj)
		if nj > sum.MaxJobs {
			sum.MaxJobs = nj
		}
		if hashF != nil {
			fmt.Fprintf(hashF, "%d %016x %d\n", run, res.Hash, res.Steps)
		}
		if res.Sim.Invalid != "" {
			sum.Invalid[res.Sim.Invalid]++
			continue
		}
		sum.Faults["job_error"] += res.ErrFired
		sum.Faults["job_goexit"] += res.GoexitFired
		sum.Faults["stuck_job_held"] += res.StuckHeld
		sum.Faults["job_own_context_cancelled"] += res.JobCtxCancelled
		for _, e := range res.Events {
			if e.Kind == EvCancel {
				sum.Faults["context_cancelled"]++
				break
			}
		}
		for i, n := range res.Sim.Probes {
			sum.Probes[engine.ProbeNames[i]] += n
		}
		if res.Nontriv > 0 {
			sum.Nontrivial++
			inter[interleavingHash(d, res)] = struct{}{}
		}
		if len(sum.Samples) < 2 && res.Nontriv > 3 && nj >= 3 && nj <= 8 {
			tr := Exec(t, withChoices(d, res.Choices), true, true, nil)
			sample := map[string]any{"descriptor": withChoices(d, res.Choices), "trace_hash": fmt.Sprintf("%016x", tr.Hash), "history": historyLines(tr), "schedule_trace": tr.Trace}
			b, _ := json.Marshal(sample)
			sum.Samples = append(sum.Samples, b)
		}
		viol := Check(res)
		for _, v := range viol {
			want := propOf(prop)
			if *fReport != "" {
				want = *fReport
			}
			if v.Prop != want {
				sum.OtherProps[v.Prop+":"+classKey(v.Class)]++
				continue
			}
			ck := v.Prop + "|" + classKey(v.Class)
			if seenClass[ck] {
				continue
			}
			seenClass[ck] = true
			fd := withChoices(d, res.Choices)
			md, mres, trials := Minimise(t, fd, v.Prop, v.Class, 600)
			if md == nil {
				sum.Unreplayable++
				sum.Invalid["violation did not replay: "+v.Prop+" "+v.Class]++
				continue
			}
			mv := Find(Check(mres), v.Prop, classKey(v.Class))
			rp := &Replay{Property: v.Prop, Class: mv.Class, Message: mv.Msg, Engine: "l1", TraceHash: fmt.Sprintf("%016x", mres.Hash), Steps: mres.Steps,
				Desc: md, History: historyLines(mres), Trace: mres.Trace,
				Found: FoundInfo{Seed: *fSeed, Proc: *fProc, Run: run, OrigSteps: res.Steps, OrigChoices: len(res.Choices), OrigJobs: nj, MinTrials: trials}}
			path := ""
			if *fReplayDir != "" {
				path = writeReplay(*fReplayDir, rp)
			}
			sum.Violations = append(sum.Violations, ViolOut{mv.Prop, mv.Class, mv.Msg, path})
		}
		if len(sum.Violations) >= *fMaxViol {
			break
		}
	}
	sum.WallS = time.Since(start).Seconds()
	for h := range inter {
		sum.Interleave = append(sum.Interleave, h)
	}
	for h := range states {
		sum.States = append(sum.States, h)
	}
	sort.Slice(sum.Interleave, func(i, j int) bool { return sum.Interleave[i] < sum.Interleave[j] })
	sort.Slice(sum.States, func(i, j int) bool { return sum.States[i] < sum.States[j] })
	if *fOut != "" {
		b, _ := json.Marshal(sum)
		if err := os.WriteFile(*fOut, b, 0o644); err != nil {
			t.Fatal(err)
		}
	} else {
		fmt.Printf("runs=%d steps=%d wall=%.1fs invalid=%v viol=%d probes=%v faults=%v states=%d inter=%d other=%v\n", sum.Runs, sum.Steps, sum.WallS, sum.Invalid, len(sum.Violations), sum.Probes, sum.Faults, len(sum.States), len(sum.Interleave), sum.OtherProps)
		for _, v := range sum.Violations {
			fmt.Printf("VIOLATION %s %s: %s (%s)\n", v.Prop, v.Class, v.Msg, v.Replay)
		}
	}
}

func withChoices(d *Desc, ch []uint32) *Desc {
	c := cloneDesc(d)
	c.Choices = append([]uint32{}, ch...)
	return c
}

func doReplay(t *testing.T) {
	b, err := os.ReadFile(*fReplay)
	if err != nil {
		fmt.Println("REPLAY-ERROR", err)
		os.Exit(2)
	}
	var rp Replay
	if err := json.Unmarshal(b, &rp); err != nil {
		fmt.Println("REPLAY-ERROR", err)
		os.Exit(2)
	}
	if rp.Desc.GOMAXPROCS != runtime.GOMAXPROCS(0) {
		runtime.GOMAXPROCS(rp.Desc.GOMAXPROCS)
	}
	res := Exec(t, rp.Desc, !rp.FromSeed, true, nil)
	viol := Check(res)
	if *fVerbose {
		for _, l := range res.Trace {
			fmt.Println(l)
		}
		for _, l := range historyLines(res) {
			fmt.Println("  ", l)
		}
	}
	fmt.Printf("replay: steps=%d trace_hash=%016x (recorded %s) invalid=%q\n", res.Steps, res.Hash, rp.TraceHash, res.Sim.Invalid)
	v := Find(viol, rp.Property, classKey(rp.Class))
	if v != nil {
		same := fmt.Sprintf("%016x", res.Hash) == rp.TraceHash
		fmt.Printf("REPRODUCED property=%s class=%s exact_trace=%v: %s\n", v.Prop, v.Class, same, v.Msg)
		return
	}
	fmt.Printf("NOT-REPRODUCED property=%s class=%s (violations now: %v)\n", rp.Property, rp.Class, viol)
}

// doSelfTest: every run is executed twice from its seed and once more from
// its recorded choice list; all three traces must agree.
func doSelfTest(t *testing.T) {
	bad := 0
	var hashF *os.File
	if *fHashLog != "" {
		hashF, _ = os.Create(*fHashLog)
		defer hashF.Close()
	}
	props := []string{"C01", "C03", "C05", "C06", "C07", "C08", "C09", "C19"}
	for run := *fFrom; run < *fSelfTest; run++ {
		prop := props[run%len(props)]
		gen := func() *Desc {
			rng := rand.New(rand.NewSource(*fSeed*1000003 + int64(run)*104729))
			d := Generate(rng, prop, *fTier, 8)
			for i := range d.Scheds {
				if d.Scheds[i].N == 0 {
					d.Scheds[i].N = 5 // the default limit depends on the process's GOMAXPROCS; keep hashes comparable
				}
			}
			d.Seed, d.Run = *fSeed, run
			return d
		}
		a := Exec(t, gen(), false, false, nil)
		b := Exec(t, gen(), false, false, nil)
		c := Exec(t, withChoices(gen(), a.Choices), true, false, nil)
		if hashF != nil {
			fmt.Fprintf(hashF, "%d %016x %d %d\n", run, a.Hash, a.Steps, len(Check(a)))
		}
		if a.Hash != b.Hash || a.Steps != b.Steps || a.Hash != c.Hash || a.Steps != c.Steps {
			bad++
			fmt.Printf("SELFTEST-DIVERGENCE run=%d prop=%s hashes %016x %016x %016x steps %d %d %d invalid=%q/%q/%q\n", run, prop, a.Hash, b.Hash, c.Hash, a.Steps, b.Steps, c.Steps, a.Sim.Invalid, b.Sim.Invalid, c.Sim.Invalid)
			if *fVerbose {
				// locate the first differing step between two replays of the same choice list
				for try := 0; try < 6; try++ {
					x := Exec(t, withChoices(gen(), a.Choices), true, true, nil)
					y := Exec(t, withChoices(gen(), a.Choices), true, true, nil)
					if x.Hash == y.Hash {
						continue
					}
					for i := 0; i < len(x.Trace) && i < len(y.Trace); i++ {
						if x.Trace[i] != y.Trace[i] {
							lo := i - 12
							if lo < 0 {
								lo = 0
							}
							fmt.Printf("first difference at trace line %d\n--- x\n%s\n--- y\n%s\n", i, strings.Join(x.Trace[lo:i+3], "\n"), strings.Join(y.Trace[lo:i+3], "\n"))
							break
						}
					}
					b, _ := json.Marshal(gen())
					fmt.Printf("descriptor: %s\n", b[:min(len(b), 3000)])
					break
				}
			}
		}
	}
	fmt.Printf("SELFTEST runs=%d divergences=%d\n", *fSelfTest, bad)
	if bad > 0 {
		os.Exit(2)
	}
}

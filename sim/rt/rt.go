// Package rt is the small runtime shared by the generated cff test programs
// and the simulation harness. It carries no build tags and uses nothing newer
// than Go 1.21 so that the cff tool (which loads packages with the repository
// toolchain) can type-check the programs that import it.
package rt

import (
	"context"
	"errors"
	"strconv"

	"go.uber.org/cff"
)

// Out is what a harness-controlled user function body produces.
type Out struct {
	V   [4]uint64
	Err error
}

// H is the handle through which every user function of a generated program
// calls back into the harness. All scheduling, faults and logging live behind
// it.
type H interface {
	// Task is the body of flow task / parallel task id.
	Task(id int, ctx context.Context, in ...uint64) Out
	// Pred is the body of the predicate of task id.
	Pred(id int, ctx context.Context, in ...uint64) bool
	// Elem is the body of a slice (a = index or -1, b = element) or map
	// (a = key, b = value) function of collection id.
	Elem(id int, ctx context.Context, a int64, b uint64) error
	// End is the body of the SliceEnd/MapEnd function of collection id.
	End(id int, ctx context.Context) error
	// Probe records the evaluation of directive argument k.
	Probe(k int)
	// ProbeNext records the evaluation of the next directive argument that is
	// written without its number (rt.ArgNext).
	ProbeNext()
	// Ident reports whether user identifier k still denoted the user's
	// variable when a directive argument mentioning it was evaluated.
	Ident(k int, ok bool)
	// Run-time values of directive arguments.
	Conc(k int) int
	Bool(k int) bool
	Emitter(k int) cff.Emitter
	// SharedEmitter returns an emitter value shared by all executions of the run.
	SharedEmitter() cff.Emitter
	// NextEmitter returns the execution's next recording emitter (0, 1, ...):
	// the same argument text, a different value each time it is evaluated.
	NextEmitter() cff.Emitter
	// EmitterSlice returns a slice of emitters (the first one cff.NopEmitter())
	// owned by the caller's application and shared by all executions of the run.
	EmitterSlice() []cff.Emitter
	Coll(id int) []uint64
	MapColl(id int) [][2]uint64
}

// Arg wraps a directive argument expression: it reports the evaluation to
// the harness and yields the value unchanged.
func Arg[T any](h H, k int, v T) T {
	h.Probe(k)
	return v
}

// ArgNext is Arg for arguments that must be textually identical to one another.
func ArgNext[T any](h H, v T) T {
	h.ProbeNext()
	return v
}

// ErrMark is the value user variables named "err" hold in generated programs.
var ErrMark = errors.New("user err variable")

// Seen wraps a directive argument expression that mentions a user variable
// whose name generated code also uses; ok tells whether the name still
// resolved to the user's variable.
func Seen[T any](h H, k int, ok bool, v T) T {
	h.Ident(k, ok)
	return v
}

// Pick is Seen for arguments whose value steers the directive: a captured
// identifier also changes the value (bad instead of v).
func Pick[T any](h H, k int, ok bool, v, bad T) T {
	h.Ident(k, ok)
	if !ok {
		return bad
	}
	return v
}

// Mut is a directive argument with a side effect: it overwrites *p and
// yields v. Arguments that precede it in the source have been evaluated by
// then, so they never see nv.
func Mut[T, V any](p *T, nv T, v V) V {
	*p = nv
	return v
}

type hKey struct{}

// WithH stores h in ctx for user functions that are plain top-level
// functions and cannot capture it.
func WithH(ctx context.Context, h H) context.Context { return context.WithValue(ctx, hKey{}, h) }

// HOf returns the handle stored by WithH.
func HOf(ctx context.Context) H {
	h, _ := ctx.Value(hKey{}).(H)
	return h
}

// Box is a generic container used to spell generic instantiations as flow
// value types.
type Box[T any] struct{ V T }

// Valuer is implemented by interface-typed flow values.
type Valuer interface{ Val() uint64 }

// ProgFunc is the uniform signature of every generated program.
type ProgFunc func(ctx context.Context, h H, p []uint64) ([]uint64, error)

// Constructors and projections of flow values of predeclared types.
func Mk_uint64(x uint64) uint64   { return x }
func Un_uint64(v uint64) uint64   { return v }
func Mk_int64(x uint64) int64     { return int64(x) }
func Un_int64(v int64) uint64     { return uint64(v) }
func Mk_uintptr(x uint64) uintptr { return uintptr(x) }
func Un_uintptr(v uintptr) uint64 { return uint64(v) }
func Mk_string(x uint64) string   { return strconv.FormatUint(x, 36) }
func Un_string(v string) uint64 {
	if v == "" {
		return 0
	}
	x, err := strconv.ParseUint(v, 36, 64)
	if err != nil {
		return ^uint64(0)
	}
	return x
}

// func() uint64 flow values (nil is the zero value).
func Mk_func(x uint64) func() uint64 { return func() uint64 { return x } }
func Un_func(v func() uint64) uint64 {
	if v == nil {
		return 0
	}
	return v()
}

// []byte flow values (8 bytes, big endian; nil is the zero value).
func Mk_bytes(x uint64) []byte {
	return []byte{byte(x >> 56), byte(x >> 48), byte(x >> 40), byte(x >> 32), byte(x >> 24), byte(x >> 16), byte(x >> 8), byte(x)}
}
func Un_bytes(v []byte) uint64 {
	var x uint64
	for _, b := range v {
		x = x<<8 | uint64(b)
	}
	return x
}

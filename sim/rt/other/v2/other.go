// Package other (import path .../other/v2: the package name is not the last
// path element) holds more value types that generated cff programs use
// without importing the package.
package other

type Y0 struct{ V uint64 }

func MkY0(x uint64) Y0 { return Y0{V: x} }
func UnY0(v Y0) uint64 { return v.V }

type Y1 struct{ V uint64 }

func MkY1(x uint64) Y1 { return Y1{V: x} }
func UnY1(v Y1) uint64 { return v.V }

type Y2 struct{ V uint64 }

func MkY2(x uint64) Y2 { return Y2{V: x} }
func UnY2(v Y2) uint64 { return v.V }

type Y3 struct{ V uint64 }

func MkY3(x uint64) Y3 { return Y3{V: x} }
func UnY3(v Y3) uint64 { return v.V }

// X0 and X1 have namesakes in package cffverif/rt/other (which has the same
// package name, too).
type X0 struct{ W uint64 }

func MkX0(x uint64) X0 { return X0{W: x} }
func UnX0(v X0) uint64 { return v.W }

type X1 struct{ W uint64 }

func MkX1(x uint64) X1 { return X1{W: x} }
func UnX1(v X1) uint64 { return v.W }

// Package other holds value types that generated cff programs use without
// importing this package: the cff generator has to synthesise the import.
package other

type X0 struct{ V uint64 }

func MkX0(x uint64) X0 { return X0{V: x} }
func UnX0(v X0) uint64 { return v.V }

type X1 struct{ V uint64 }

func MkX1(x uint64) X1 { return X1{V: x} }
func UnX1(v X1) uint64 { return v.V }

type X2 struct{ V uint64 }

func MkX2(x uint64) X2 { return X2{V: x} }
func UnX2(v X2) uint64 { return v.V }

type X3 struct{ V uint64 }

func MkX3(x uint64) X3 { return X3{V: x} }
func UnX3(v X3) uint64 { return v.V }

type X4 struct{ V uint64 }

func MkX4(x uint64) X4 { return X4{V: x} }
func UnX4(v X4) uint64 { return v.V }

type X5 struct{ V uint64 }

func MkX5(x uint64) X5 { return X5{V: x} }
func UnX5(v X5) uint64 { return v.V }

type X6 struct{ V uint64 }

func MkX6(x uint64) X6 { return X6{V: x} }
func UnX6(v X6) uint64 { return v.V }

type X7 struct{ V uint64 }

func MkX7(x uint64) X7 { return X7{V: x} }
func UnX7(v X7) uint64 { return v.V }

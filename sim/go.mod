module cffverif

go 1.21

require (
	go.uber.org/cff v0.0.0
	go.uber.org/multierr v1.11.0
)

replace go.uber.org/cff => /repo

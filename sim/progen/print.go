package progen

import (
	"fmt"
	"math/rand"
	"strings"
)

// user-chosen local names that collide with identifiers the cff templates
// introduce; hoisted expressions must still bind to the user's variables.
var collidingNames = []string{"v1", "v2", "sched", "emitter", "tasks", "task0", "task1", "flowInfo", "schedInfo", "startTime", "pred1", "p0", "t", "idx", "val", "key", "directiveInfo", "parallelInfo", "flowEmitter", "schedEmitter", "v3", "taskEmitter"}

type printer struct {
	p       *Prog
	aux     strings.Builder // functions living in the corpus package's aux subpackage
	b       strings.Builder // declarations before the program function
	probes  []ProbeInfo
	wrap    bool
	pfx     string // "P<id>"
	nargs   int    // directive arguments rendered so far
	errAt   int    // which of them mentions the user's variable err (0: none)
	errWhat string // alternatively: the first argument of this kind does
	// mutVar/mutNew: the next argument rendered overwrites this variable with that value
	mutVar, mutNew string
	mutDone        bool
}

func (pr *printer) probe(what, expr string) string {
	// One argument of the directive (the errAt-th in source order) mentions
	// the enclosing function's variable err. For arguments whose value steers
	// the directive the value itself depends on which err was seen, so the
	// property the argument belongs to notices a capture as well.
	pr.nargs++
	if pr.mutVar != "" {
		expr = fmt.Sprintf("rt.Mut(&%s, %s, %s)", pr.mutVar, pr.mutNew, expr)
		pr.mutVar = ""
	}
	if (pr.errAt != 0 && pr.nargs == pr.errAt) || (pr.errWhat != "" && pr.errWhat == what) {
		pr.errWhat = ""
		switch what {
		case "continue-on-error":
			expr = fmt.Sprintf("rt.Pick(h, 0, err == rt.ErrMark, %s, !(%s))", expr, expr)
		case "concurrency":
			expr = fmt.Sprintf("rt.Pick(h, 0, err == rt.ErrMark, %s, (%s)+1)", expr, expr)
		default:
			expr = fmt.Sprintf("rt.Seen(h, 0, err == rt.ErrMark, %s)", expr)
		}
	}
	if !pr.wrap {
		return expr
	}
	k := len(pr.probes)
	if what == "emitter" && expr == "h.NextEmitter()" {
		pr.probes = append(pr.probes, ProbeInfo{What: what, Next: true})
		return "rt.ArgNext(h, h.NextEmitter())"
	}
	pr.probes = append(pr.probes, ProbeInfo{What: what})
	return fmt.Sprintf("rt.Arg(h, %d, %s)", k, expr)
}

// host returns what is written before and after the directive call: the call
// is the right-hand side of an assignment, or the result of a function literal
// that is called on the spot, or of one handed to a local helper - a directive
// can sit anywhere an expression can.
func (pr *printer) host(sel uint64, call string) (open, close string) {
	if pr.p.ModifierOK {
		sel = 0
	}
	switch sel % 5 {
	case 1:
		return "\terr = func() error {\n\t\treturn " + call, "\n\t}()\n"
	case 2:
		return "\thostRun := func(f func() error) error { return f() }\n\terr = hostRun(func() error {\n\t\treturn " + call, "\n\t})\n"
	}
	return "\terr = " + call, "\n"
}

// probeAlways is a numbered probe on an operand inside an argument; when the
// program does not wrap its arguments it is the bare expression.
func (pr *printer) probeAlways(what, expr string) string {
	if !pr.wrap {
		return expr
	}
	k := len(pr.probes)
	pr.probes = append(pr.probes, ProbeInfo{What: what})
	return fmt.Sprintf("rt.Arg(h, %d, %s)", k, expr)
}

// fnProbe wraps a user function expression (predicate, parallel task, slice /
// map / End function) in an argument probe in a third of the places: those
// expressions, too, are evaluated once, in order, before anything runs.
func (pr *printer) fnProbe(rng *rand.Rand, what, expr string) string {
	if pr.wrap && rng.Intn(3) == 0 {
		return pr.probe(what, expr)
	}
	pr.nargs++
	return expr
}

func (pr *printer) tname(i int) string { return fmt.Sprintf("%sT%d", pr.pfx, i) }

// mk / un return the constructor and projection of flow type i as spelled in
// the program file.
func (pr *printer) mk(ts []TypeSpec, i int) string {
	switch ts[i].Kind {
	case TOther:
		return fmt.Sprintf("ext.MkX%d", ts[i].X)
	case TBasic:
		return "rt.Mk_" + BasicNames[ts[i].X]
	case TBytes:
		return "rt.Mk_bytes"
	case TFuncLit:
		return "rt.Mk_func"
	case TParam:
		return fmt.Sprintf("G%d", i) // conversion to the type parameter
	}
	return "mk" + pr.tname(i)
}

func (pr *printer) un(ts []TypeSpec, i int) string {
	switch ts[i].Kind {
	case TOther:
		return fmt.Sprintf("ext.UnX%d", ts[i].X)
	case TBasic:
		return "rt.Un_" + BasicNames[ts[i].X]
	case TBytes:
		return "rt.Un_bytes"
	case TFuncLit:
		return "rt.Un_func"
	case TParam:
		return "uint64"
	}
	return "un" + pr.tname(i)
}

// typeStr is the Go spelling of flow type i.
func (pr *printer) typeStr(ts []TypeSpec, i int) string {
	n := pr.tname(i)
	switch ts[i].Kind {
	case TStruct, TNamed, TIface, TFunc:
		return n
	case TPointer:
		return "*" + n + "e"
	case TSlice:
		return "[]" + n + "e"
	case TMap:
		return "map[string]" + n + "e"
	case TGeneric:
		return "rt.Box[" + n + "e]"
	case TArray:
		return "[2]" + n + "e"
	case TOther:
		panic("a type of an unimported package cannot be spelled in the program file")
	case TBasic:
		return BasicNames[ts[i].X]
	case TParam:
		return fmt.Sprintf("G%d", i)
	case TAnon:
		return fmt.Sprintf("struct {\n\tV uint64\n\tF%d bool\n}", i)
	case TBytes:
		return "[]byte"
	case TFuncLit:
		return "func() uint64"
	}
	panic("type kind")
}

// typeStrIn is the spelling a consumer of flow type i uses in its parameter
// list: the same type, not necessarily the same text.
func (pr *printer) typeStrIn(ts []TypeSpec, i int) string {
	switch ts[i].Kind {
	case TBytes:
		return "[]uint8"
	case TAnon:
		// same struct, written on one line
		return fmt.Sprintf("struct {\n\tV  uint64\n\tF%d bool\n}", i)
	}
	return pr.typeStr(ts, i)
}

func (pr *printer) declType(ts []TypeSpec, i int) {
	n := pr.tname(i)
	w := func(f string, a ...any) { fmt.Fprintf(&pr.b, f, a...) }
	switch ts[i].Kind {
	case TOther, TBasic, TBytes, TFuncLit:
		return
	case TAnon:
		w("func mk%s(x uint64) %s { return %s{V: x} }\nfunc un%s(v %s) uint64 { return v.V }\n", n, pr.typeStr(ts, i), pr.typeStr(ts, i), n, pr.typeStr(ts, i))
		return
	case TParam:
		w("type %s uint64\n", n) // the type argument the program is instantiated with
		return
	}
	T := pr.typeStr(ts, i)
	switch ts[i].Kind {
	case TStruct:
		w("type %s struct{ V uint64 }\n", n)
		w("func mk%s(x uint64) %s { return %s{V: x} }\nfunc un%s(v %s) uint64 { return v.V }\n", n, T, n, n, T)
	case TPointer:
		w("type %se struct{ V uint64 }\n", n)
		w("func mk%s(x uint64) %s { return &%se{V: x} }\nfunc un%s(v %s) uint64 {\n\tif v == nil {\n\t\treturn 0\n\t}\n\treturn v.V\n}\n", n, T, n, n, T)
	case TNamed:
		w("type %s uint64\n", n)
		w("func mk%s(x uint64) %s { return %s(x) }\nfunc un%s(v %s) uint64 { return uint64(v) }\n", n, T, n, n, T)
	case TSlice:
		w("type %se uint64\n", n)
		w("func mk%s(x uint64) %s { return %s{%se(x)} }\nfunc un%s(v %s) uint64 {\n\tif len(v) == 0 {\n\t\treturn 0\n\t}\n\treturn uint64(v[0])\n}\n", n, T, T, n, n, T)
	case TMap:
		w("type %se uint64\n", n)
		w("func mk%s(x uint64) %s { return %s{\"k\": %se(x)} }\nfunc un%s(v %s) uint64 { return uint64(v[\"k\"]) }\n", n, T, T, n, n, T)
	case TGeneric:
		w("type %se uint64\n", n)
		w("func mk%s(x uint64) %s { return %s{V: %se(x)} }\nfunc un%s(v %s) uint64 { return uint64(v.V) }\n", n, T, T, n, n, T)
	case TIface:
		w("type %s interface {\n\tVal() uint64\n\tis%s()\n}\ntype %si struct{ v uint64 }\nfunc (i %si) Val() uint64 { return i.v }\nfunc (%si) is%s() {}\n", n, n, n, n, n, n)
		w("func mk%s(x uint64) %s { return %si{v: x} }\nfunc un%s(v %s) uint64 {\n\tif v == nil {\n\t\treturn 0\n\t}\n\treturn v.Val()\n}\n", n, T, n, n, T)
	case TArray:
		w("type %se uint64\n", n)
		w("func mk%s(x uint64) %s { return %s{%se(x), %se(x >> 1)} }\nfunc un%s(v %s) uint64 { return uint64(v[0]) }\n", n, T, T, n, n, n, T)
	case TFunc:
		w("type %s func() uint64\n", n)
		w("func mk%s(x uint64) %s { return func() uint64 { return x } }\nfunc un%s(v %s) uint64 {\n\tif v == nil {\n\t\treturn 0\n\t}\n\treturn v()\n}\n", n, T, n, T)
	}
}

// taskFunc renders the user function of a flow task in the requested form
// and returns the expression to put in the directive.
func (pr *printer) flowTaskFunc(f *FlowP, t *TaskP) string {
	if t.Form == FormAux {
		return pr.auxTaskFunc(f, t)
	}
	var params, args []string
	if t.Ctx {
		params = append(params, "ctx context.Context")
	}
	for k, in := range t.In {
		params = append(params, fmt.Sprintf("a%d %s", k, pr.typeStrIn(f.Types, in)))
		args = append(args, fmt.Sprintf("%s(a%d)", pr.un(f.Types, in), k))
	}
	var rets, retv []string
	for k, out := range t.Out {
		rets = append(rets, pr.typeStr(f.Types, out))
		retv = append(retv, fmt.Sprintf("%s(o.V[%d])", pr.mk(f.Types, out), k))
	}
	if t.Err {
		rets = append(rets, "error")
		retv = append(retv, "o.Err")
	}
	ctxArg := "nil"
	if t.Ctx {
		ctxArg = "ctx"
	}
	call := func(h string) string {
		c := fmt.Sprintf("%s.Task(%d, %s", h, t.ID, ctxArg)
		if len(args) > 0 {
			c += ", " + strings.Join(args, ", ")
		}
		return c + ")"
	}
	body := func(h string) string {
		if len(retv) == 0 {
			return "\t" + call(h) + "\n"
		}
		return "\to := " + call(h) + "\n\treturn " + strings.Join(retv, ", ") + "\n"
	}
	sig := "(" + strings.Join(params, ", ") + ")"
	switch len(rets) {
	case 0:
	case 1:
		sig += " " + rets[0]
	default:
		sig += " (" + strings.Join(rets, ", ") + ")"
	}
	switch t.Form {
	case FormMethod:
		fmt.Fprintf(&pr.b, "func (w *%sw) T%d%s {\n%s}\n", strings.ToLower(pr.pfx), t.ID, sig, body("w.h"))
		if pr.wrap && t.ID%3 == 1 {
			// the receiver of the method value is itself a call: it is evaluated with the
			// arguments, before anything runs, like any other operand
			return fmt.Sprintf("%s.T%d", pr.probe("method-receiver", "w"), t.ID)
		}
		return fmt.Sprintf("w.T%d", t.ID)
	case FormTop:
		name := fmt.Sprintf("%sF%d", strings.ToLower(pr.pfx), t.ID)
		fmt.Fprintf(&pr.b, "func %s%s {\n\th := rt.HOf(ctx)\n%s}\n", name, sig, body("h"))
		return name
	}
	lit := "func" + sig + " {\n" + body("h") + "}"
	if t.ID%4 == 2 && !pr.p.ModifierOK {
		// the same function seen through a function type that does not name its parameters
		// (a value of a named handler type, the result of a middleware): it still reads them all
		var ptypes []string
		if t.Ctx {
			ptypes = append(ptypes, "context.Context")
		}
		for _, in := range t.In {
			ptypes = append(ptypes, pr.typeStrIn(f.Types, in))
		}
		usig := "(" + strings.Join(ptypes, ", ") + ")"
		switch len(rets) {
		case 0:
		case 1:
			usig += " " + rets[0]
		default:
			usig += " (" + strings.Join(rets, ", ") + ")"
		}
		return "(func" + usig + ")(" + lit + ")"
	}
	return lit
}

// auxTaskFunc writes the task's function into the aux package. Types of the
// unimported package are spelled there; local named integer types enter
// through type parameters, so the program file instantiates the function.
func (pr *printer) auxTaskFunc(f *FlowP, t *TaskP) string {
	tp := map[int]string{} // local type -> type parameter
	var tparams, targs []string
	tyName := func(ty int) string {
		if f.Types[ty].Kind == TOther {
			return otherName(f.Types[ty].X, "")
		}
		if n, ok := tp[ty]; ok {
			return n
		}
		n := string(rune('A' + len(tp)))
		tp[ty] = n
		tparams = append(tparams, n+" ~uint64")
		targs = append(targs, pr.tname(ty))
		return n
	}
	params := []string{"ctx context.Context"}
	var args, rets, retv []string
	for k, in := range t.In {
		n := tyName(in)
		params = append(params, fmt.Sprintf("a%d %s", k, n))
		if f.Types[in].Kind == TOther {
			args = append(args, fmt.Sprintf("%s(a%d)", otherName(f.Types[in].X, "Un"), k))
		} else {
			args = append(args, fmt.Sprintf("uint64(a%d)", k))
		}
	}
	for k, out := range t.Out {
		n := tyName(out)
		rets = append(rets, n)
		if f.Types[out].Kind == TOther {
			retv = append(retv, fmt.Sprintf("%s(o.V[%d])", otherName(f.Types[out].X, "Mk"), k))
		} else {
			retv = append(retv, fmt.Sprintf("%s(o.V[%d])", n, k))
		}
	}
	if t.Err {
		rets = append(rets, "error")
		retv = append(retv, "o.Err")
	}
	name := fmt.Sprintf("%sT%d", pr.pfx, t.ID)
	sig := name
	if len(tparams) > 0 {
		sig += "[" + strings.Join(tparams, ", ") + "]"
	}
	sig += "(" + strings.Join(params, ", ") + ")"
	switch len(rets) {
	case 0:
	case 1:
		sig += " " + rets[0]
	default:
		sig += " (" + strings.Join(rets, ", ") + ")"
	}
	call := fmt.Sprintf("rt.HOf(ctx).Task(%d, ctx", t.ID)
	if len(args) > 0 {
		call += ", " + strings.Join(args, ", ")
	}
	call += ")"
	if len(retv) == 0 {
		fmt.Fprintf(&pr.aux, "func %s {\n\t%s\n}\n\n", sig, call)
	} else {
		fmt.Fprintf(&pr.aux, "func %s {\n\to := %s\n\treturn %s\n}\n\n", sig, call, strings.Join(retv, ", "))
	}
	expr := "ext." + name
	if len(targs) > 0 {
		expr += "[" + strings.Join(targs, ", ") + "]"
	}
	return expr
}

func (pr *printer) predFunc(f *FlowP, t *TaskP) string {
	var params, args []string
	ctxArg := "nil"
	if t.Pred.Ctx {
		params = append(params, "ctx context.Context")
		ctxArg = "ctx"
	}
	for k, in := range t.Pred.In {
		params = append(params, fmt.Sprintf("a%d %s", k, pr.typeStrIn(f.Types, in)))
		args = append(args, fmt.Sprintf("%s(a%d)", pr.un(f.Types, in), k))
	}
	c := fmt.Sprintf("h.Pred(%d, %s", t.ID, ctxArg)
	if len(args) > 0 {
		c += ", " + strings.Join(args, ", ")
	}
	lit := "func(" + strings.Join(params, ", ") + ") bool { return " + c + ") }"
	if t.ID%4 == 1 && !pr.p.ModifierOK {
		// seen through a function type with unnamed parameters
		var ptypes []string
		if t.Pred.Ctx {
			ptypes = append(ptypes, "context.Context")
		}
		for _, in := range t.Pred.In {
			ptypes = append(ptypes, pr.typeStrIn(f.Types, in))
		}
		return "(func(" + strings.Join(ptypes, ", ") + ") bool)(" + lit + ")"
	}
	return lit
}

func emitterOpts(pr *printer, n int, nest, shared, slice, next bool) []string {
	var out []string
	if shared {
		out = append(out, "cff.WithEmitter("+pr.probe("emitter-shared", "h.SharedEmitter()")+")")
	}
	if slice {
		return append(out, "cff.WithEmitter("+pr.probe("emitter-slice", "cff.EmitterStack(h.EmitterSlice()...)")+")")
	}
	i := 0
	if nest && n >= 2 {
		out = append(out, "cff.WithEmitter("+pr.probe("emitter-stack", "cff.EmitterStack(h.Emitter(0), cff.EmitterStack(h.Emitter(1)))")+")")
		i = 2
	}
	for ; i < n; i++ {
		if next {
			out = append(out, "cff.WithEmitter("+pr.probe("emitter", "h.NextEmitter()")+")")
			continue
		}
		out = append(out, "cff.WithEmitter("+pr.probe("emitter", fmt.Sprintf("h.Emitter(%d)", i))+")")
	}
	return out
}

// Source renders program p and fills p.Probes. It returns the declarations
// of the program (without file header) and the source of the functions the
// program needs in its package's ext subpackage.
func Source(p *Prog) (string, string) {
	pr := &printer{p: p, pfx: fmt.Sprintf("P%d", p.ID)}
	var fn string
	if p.Flow != nil {
		fn = pr.flow(p.Flow)
	} else {
		fn = pr.par(p.Par)
	}
	p.Probes = pr.probes
	var out strings.Builder
	fmt.Fprintf(&out, "type %sw struct{ h rt.H }\n\n", strings.ToLower(pr.pfx))
	out.WriteString(pr.b.String())
	out.WriteString("\n")
	out.WriteString(fn)
	return out.String(), pr.aux.String()
}

// FileSource assembles a cff-tagged file from the bodies of one or more
// programs (several directives per file).
func FileSource(pkg string, bodies []string, needExt bool) string {
	var out strings.Builder
	extImport := ""
	if needExt {
		extImport = "\t\"cffverif/corpus/" + pkg + "/ext\"\n"
	}
	out.WriteString("//go:build cff\n\npackage " + pkg + "\n\nimport (\n\t\"context\"\n\n" + extImport + "\t\"cffverif/rt\"\n\n\t\"go.uber.org/cff\"\n)\n\nvar _ context.Context\nvar _ rt.H\n\n")
	for _, b := range bodies {
		out.WriteString(b)
		out.WriteString("\n")
	}
	return out.String()
}

// NeedsExt tells whether the program's source refers to the ext package.
func NeedsExt(p *Prog, extSrc string) bool { return extSrc != "" || usesOther(p) }

func usesOther(p *Prog) bool {
	if p.Flow == nil {
		return false
	}
	for _, t := range p.Flow.Types {
		if t.Kind == TOther {
			return true
		}
	}
	return false
}

// NumOther is the size of the pool of types from packages the program files do
// not import: 0-7 from package other, 8-11 from cffverif/rt/other/v2 (whose
// package name, other, is not the last element of its import path), 12-13 from
// that package again but named like types 0 and 1 of the first one.
const NumOther = 14

// otherName spells type k of the pool (prefix ""), its constructor ("Mk") or
// projection ("Un") as the ext package sees it.
func otherName(k int, prefix string) string {
	if k < 8 {
		return fmt.Sprintf("other.%sX%d", prefix, k)
	}
	if k >= 12 {
		return fmt.Sprintf("other2.%sX%d", prefix, k-12)
	}
	return fmt.Sprintf("other2.%sY%d", prefix, k-8)
}

// AuxHeader is the fixed part of every aux package.
func AuxHeader() string {
	var b strings.Builder
	b.WriteString("// Package ext holds user functions of the generated programs that live in\n// another package, and the only spellings of types of package other the\n// program files can use without importing it.\npackage ext\n\nimport (\n\t\"context\"\n\n\t\"cffverif/rt\"\n\t\"cffverif/rt/other\"\n\tother2 \"cffverif/rt/other/v2\"\n)\n\nvar _ context.Context\nvar _ rt.H\n\n")
	for k := 0; k < NumOther; k++ {
		fmt.Fprintf(&b, "func MkX%d(x uint64) %s { return %s(x) }\nfunc UnX%d(v %s) uint64 { return %s(v) }\n\n", k, otherName(k, ""), otherName(k, "Mk"), k, otherName(k, ""), otherName(k, "Un"))
	}
	return b.String()
}

type renderItem struct {
	render    func() string
	instrFlow bool   // the cff.InstrumentFlow option
	task      *TaskP // a cff.Task option
}

func (pr *printer) flow(f *FlowP) string {
	pr.wrap = f.WrapArgs
	rng := rand.New(rand.NewSource(f.OptSeed))
	for i := range f.Types {
		pr.declType(f.Types, i)
	}
	names := append([]string{}, collidingNames...)
	rng.Shuffle(len(names), func(i, j int) { names[i], names[j] = names[j], names[i] })
	if pr.p.PlainNames {
		for i := range names {
			names[i] = fmt.Sprintf("in%d", i)
		}
	}
	var fb strings.Builder
	var tparams, targs []string
	for i, ts := range f.Types {
		if ts.Kind == TParam {
			tparams = append(tparams, fmt.Sprintf("G%d ~uint64", i))
			targs = append(targs, pr.tname(i))
		}
	}
	if len(tparams) > 0 {
		g := strings.ToLower(pr.pfx) + "g"
		fmt.Fprintf(&fb, "func %s(ctx context.Context, h rt.H, p []uint64) ([]uint64, error) {\n\treturn %s[%s](ctx, h, p)\n}\n\n", pr.p.Name, g, strings.Join(targs, ", "))
		fmt.Fprintf(&fb, "func %s[%s](ctx context.Context, h rt.H, p []uint64) (res []uint64, err error) {\n", g, strings.Join(tparams, ", "))
	} else {
		fmt.Fprintf(&fb, "func %s(ctx context.Context, h rt.H, p []uint64) (res []uint64, err error) {\n", pr.p.Name)
	}
	fmt.Fprintf(&fb, "\tw := &%sw{h: h}\n\t_ = w\n", strings.ToLower(pr.pfx))
	if f.ErrIdent {
		fb.WriteString("\terr = rt.ErrMark\n")
	}
	pname := map[int]string{}
	for k, t := range f.Params {
		pname[t] = names[k%len(names)]
		if k >= len(names) {
			pname[t] = fmt.Sprintf("in%d", k)
		}
		fmt.Fprintf(&fb, "\t%s := %s(p[%d])\n", pname[t], pr.mk(f.Types, t), k)
	}
	// resIdx: the Results target is an element of an array, and its index is an expression
	// (evaluated, like every operand of a directive argument, with the arguments)
	resIdx := func(k int) bool {
		return !pr.p.ModifierOK && f.Types[f.Results[k]].Kind != TOther && (uint64(f.OptSeed)>>9+uint64(k))%5 == 0
	}
	resVar := func(k int) string {
		if resIdx(k) {
			return fmt.Sprintf("ra%d[0]", k)
		}
		return fmt.Sprintf("r%d", k)
	}
	for k, t := range f.Results {
		if resIdx(k) {
			fmt.Fprintf(&fb, "\tra%d := [1]%s{%s(%d)}\n", k, pr.typeStr(f.Types, t), pr.mk(f.Types, t), Sentinel)
			continue
		}
		fmt.Fprintf(&fb, "\tr%d := %s(%d)\n", k, pr.mk(f.Types, t), Sentinel)
	}
	// mutPtr: the bare read of the MutArg variable goes through a pointer to it
	mutPtr := f.MutArg && (uint64(f.OptSeed)>>13)%2 == 0
	// statements before / after the directive that its options ask for
	var pre, post strings.Builder
	// options, in shuffled order
	var items []renderItem
	if len(f.Params) > 0 {
		split := len(f.Params)
		if len(f.Params) > 1 && rng.Intn(2) == 0 {
			split = 1 + rng.Intn(len(f.Params)-1)
		}
		for _, part := range [][]int{f.Params[:split], f.Params[split:]} {
			part := part
			if len(part) == 0 {
				continue
			}
			items = append(items, renderItem{render: func() string {
				var a []string
				for _, t := range part {
					if f.MutArg && !pr.mutDone {
						// a bare read of a variable that the next argument overwrites
						pr.mutDone = true
						pr.nargs++
						if mutPtr {
							fmt.Fprintf(&pre, "\t%sPtr := &%s\n", pname[t], pname[t])
							a = append(a, "*"+pname[t]+"Ptr")
						} else {
							a = append(a, pname[t])
						}
						pr.mutVar, pr.mutNew = pname[t], fmt.Sprintf("%s(%d)", pr.mk(f.Types, t), MutVal)
						continue
					}
					a = append(a, pr.probe("param", pname[t]))
				}
				return "cff.Params(" + strings.Join(a, ", ") + ")"
			}})
		}
	}
	if len(f.Results) > 0 {
		// one cff.Results option, or the targets spread over two
		split := len(f.Results)
		if len(f.Results) > 1 && rng.Intn(2) == 0 {
			split = 1 + rng.Intn(len(f.Results)-1)
		}
		for _, part := range [][2]int{{0, split}, {split, len(f.Results)}} {
			part := part
			if part[0] == part[1] {
				continue
			}
			items = append(items, renderItem{render: func() string {
				var a []string
				for k := part[0]; k < part[1]; k++ {
					if resIdx(k) {
						pr.nargs++
						a = append(a, fmt.Sprintf("&ra%d[%s]", k, pr.probeAlways("result-index", "0")))
						continue
					}
					a = append(a, pr.probe("result", fmt.Sprintf("&r%d", k)))
				}
				return "cff.Results(" + strings.Join(a, ", ") + ")"
			}})
		}
	}
	switch f.ConcMode {
	case ArgConst:
		items = append(items, renderItem{render: func() string {
			return "cff.Concurrency(" + pr.probe("concurrency", fmt.Sprint(f.ConcConst)) + ")"
		}})
	case ArgRuntime:
		items = append(items, renderItem{render: func() string { return "cff.Concurrency(" + pr.probe("concurrency", "h.Conc(0)") + ")" }})
	}
	if f.Emitters > 0 {
		items = append(items, renderItem{render: func() string {
			return strings.Join(emitterOpts(pr, f.Emitters, f.EmitNest, f.EmitShared, f.EmitSlice, f.EmitNext), ",\n\t\t")
		}})
		if f.InstrFlow {
			items = append(items, renderItem{render: func() string {
				return "cff.InstrumentFlow(" + pr.probe("instrument-flow", fmt.Sprintf("%q", "f"+fmt.Sprint(pr.p.ID))) + ")"
			}, instrFlow: true})
		}
	}
	for i := range f.Tasks {
		t := &f.Tasks[i]
		items = append(items, renderItem{task: t, render: func() string {
			fnExpr := pr.flowTaskFunc(f, t)
			if t.WrapFn {
				fnExpr = pr.probe("task-func", fnExpr)
			} else if rng.Intn(8) == 0 {
				fnExpr = "(" + fnExpr + ")" // redundant parentheses around the function expression
			}
			var opts []func() string
			if t.Pred != nil {
				opts = append(opts, func() string { return "cff.Predicate(" + pr.fnProbe(rng, "predicate-func", pr.predFunc(f, t)) + ")" })
			}
			if t.Fallback {
				opts = append(opts, func() string {
					var a []string
					for k, o := range t.Out {
						if t.FBNil {
							pr.nargs++
							a = append(a, "nil")
							continue
						}
						val := fmt.Sprintf("%s(%d)", pr.mk(f.Types, o), FBVal(pr.p.ID, t.ID, k))
						if (t.ID+k)%2 == 0 {
							// the fallback value lives in a variable of the caller, which
							// the caller overwrites once the directive has returned
							v := fmt.Sprintf("fb%d_%d", t.ID, k)
							fmt.Fprintf(&pre, "\t%s := %s\n", v, val)
							fmt.Fprintf(&post, "\t%s = %s(%d)\n\t_ = %s\n", v, pr.mk(f.Types, o), MutVal, v)
							val = v
						}
						a = append(a, pr.probe("fallback", val))
						if val != "" && val[0] == 'f' && pr.mutVar == "" && (t.ID+k)%4 == 0 {
							// ... and which the very next argument of the directive already overwrites
							pr.mutVar, pr.mutNew = val, fmt.Sprintf("%s(%d)", pr.mk(f.Types, o), MutVal)
						}
					}
					return "cff.FallbackWith(" + strings.Join(a, ", ") + ")"
				})
			}
			if t.Instr {
				opts = append(opts, func() string {
					return "cff.Instrument(" + pr.probe("instrument", fmt.Sprintf("%q", fmt.Sprintf("t%d", t.ID))) + ")"
				})
			}
			if len(t.Out) == 0 {
				opts = append(opts, func() string { return "cff.Invoke(true)" })
			}
			rng.Shuffle(len(opts), func(i, j int) { opts[i], opts[j] = opts[j], opts[i] })
			s := "cff.Task(" + fnExpr
			for _, o := range opts {
				s += ",\n\t\t\t" + o()
			}
			return s + ")"
		}})
	}
	// tasks keep their relative listing order (that is the abstract listing);
	// everything else is shuffled among them
	rng.Shuffle(len(items), func(i, j int) { items[i], items[j] = items[j], items[i] })
	if f.ErrIdent {
		// a directive argument that mentions the user's variable named err:
		// the context (always present) in half of the programs, otherwise a later argument
		pr.errAt = 1
		if e := int(uint64(f.OptSeed) % 16); e >= 8 {
			pr.errAt = e - 6
		}
		if (uint64(f.OptSeed)>>4)%4 == 1 && f.ConcMode != ArgAbsent {
			pr.errAt, pr.errWhat = 0, "concurrency"
		}
	}
	var dir strings.Builder
	open, close := pr.host(uint64(f.OptSeed)>>17, "cff.Flow(")
	dir.WriteString(open + pr.probe("ctx", "ctx"))
	seenInstrFlow := false
	for _, it := range items {
		if it.instrFlow {
			seenInstrFlow = true
		}
		if it.task != nil {
			it.task.AutoInstr = pr.p.AutoInstr && seenInstrFlow && !it.task.Instr
		}
		dir.WriteString(",\n\t\t" + it.render())
	}
	dir.WriteString(",\n\t)" + close)
	fb.WriteString(pre.String())
	fb.WriteString(dir.String())
	fb.WriteString(post.String())
	fb.WriteString("\treturn []uint64{")
	for k, t := range f.Results {
		if k > 0 {
			fb.WriteString(", ")
		}
		fmt.Fprintf(&fb, "%s(%s)", pr.un(f.Types, t), resVar(k))
	}
	fb.WriteString("}, err\n}\n")
	return fb.String()
}

func (pr *printer) par(p *ParP) string {
	pr.wrap = p.WrapArgs
	rng := rand.New(rand.NewSource(p.OptSeed))
	w := func(f string, a ...any) { fmt.Fprintf(&pr.b, f, a...) }
	lpfx := strings.ToLower(pr.pfx)
	var fb strings.Builder
	gen := ""
	if p.Generic {
		gen = "[T ~uint64]"
		fmt.Fprintf(&fb, "func %s(ctx context.Context, h rt.H, p []uint64) ([]uint64, error) {\n\treturn %sg[%sG](ctx, h, p)\n}\n\n", pr.p.Name, lpfx, pr.pfx)
		w("type %sG uint64\n", pr.pfx)
		fmt.Fprintf(&fb, "func %sg%s(ctx context.Context, h rt.H, p []uint64) (res []uint64, err error) {\n", lpfx, gen)
	} else {
		fmt.Fprintf(&fb, "func %s(ctx context.Context, h rt.H, p []uint64) (res []uint64, err error) {\n", pr.p.Name)
	}
	fmt.Fprintf(&fb, "\tw := &%sw{h: h}\n\t_ = w\n", lpfx)
	if p.ErrIdent {
		fb.WriteString("\terr = rt.ErrMark\n")
	}
	// collections
	type collInfo struct{ varName, elemT, keyT, unE string }
	ci := map[int]collInfo{}
	for i := range p.Colls {
		c := &p.Colls[i]
		e := fmt.Sprintf("%sE%d", pr.pfx, c.ID)
		var elemT, mkE, unE string
		switch c.ElemKind {
		case 0:
			if p.Generic && !c.Map && !c.Named {
				elemT, mkE, unE = "T", "T", "uint64"
			} else {
				w("type %s uint64\n", e)
				elemT, mkE, unE = e, e, "uint64"
			}
		case 1:
			w("type %s struct{ V uint64 }\nfunc mk%s(x uint64) %s { return %s{V: x} }\nfunc un%s(v %s) uint64 { return v.V }\n", e, e, e, e, e, e)
			elemT, mkE, unE = e, "mk"+e, "un"+e
		case 2:
			w("type %s struct{ V uint64 }\nfunc mk%s(x uint64) *%s { return &%s{V: x} }\nfunc un%s(v *%s) uint64 {\n\tif v == nil {\n\t\treturn 0\n\t}\n\treturn v.V\n}\n", e, e, e, e, e, e)
			elemT, mkE, unE = "*"+e, "mk"+e, "un"+e
		}
		v := fmt.Sprintf("c%d", c.ID)
		names := []string{"idx", "val", "key", "tasks", "sched"}
		if rng.Intn(3) == 0 && !pr.p.PlainNames {
			v = names[rng.Intn(len(names))] + fmt.Sprint(c.ID)
		}
		if c.Map {
			k := fmt.Sprintf("%sK%d", pr.pfx, c.ID)
			w("type %s uint64\n", k)
			mt := fmt.Sprintf("map[%s]%s", k, elemT)
			if c.Named {
				w("type %sM%d %s\n", pr.pfx, c.ID, mt)
				mt = fmt.Sprintf("%sM%d", pr.pfx, c.ID)
			}
			fmt.Fprintf(&fb, "\tvar %s %s\n\tif kv := h.MapColl(%d); kv != nil {\n\t\t%s = %s{}\n\t\tfor _, e := range kv {\n\t\t\t%s[%s(e[0])] = %s(e[1])\n\t\t}\n\t}\n", v, mt, c.ID, v, mt, v, k, mkE)
			ci[c.ID] = collInfo{v, elemT, k, unE}
		} else {
			st := "[]" + elemT
			if c.Named {
				w("type %sS%d %s\n", pr.pfx, c.ID, st)
				st = fmt.Sprintf("%sS%d", pr.pfx, c.ID)
			}
			fmt.Fprintf(&fb, "\tvar %s %s\n\tif vs := h.Coll(%d); vs != nil {\n\t\t%s = make(%s, len(vs))\n\t\tfor i, x := range vs {\n\t\t\t%s[i] = %s(x)\n\t\t}\n\t}\n", v, st, c.ID, v, st, v, mkE)
			ci[c.ID] = collInfo{v, elemT, "", unE}
		}
	}
	taskFn := func(t *PTask) string {
		var params []string
		ctxArg := "nil"
		if t.Ctx {
			params = append(params, "ctx context.Context")
			ctxArg = "ctx"
		}
		sig := "(" + strings.Join(params, ", ") + ")"
		body := func(h string) string {
			if t.Err {
				return fmt.Sprintf("\treturn %s.Task(%d, %s).Err\n", h, t.ID, ctxArg)
			}
			return fmt.Sprintf("\t%s.Task(%d, %s)\n", h, t.ID, ctxArg)
		}
		if t.Err {
			sig += " error"
		}
		switch t.Form {
		case FormMethod:
			w("func (w *%sw) T%d%s {\n%s}\n", lpfx, t.ID, sig, body("w.h"))
			return fmt.Sprintf("w.T%d", t.ID)
		case FormTop:
			name := fmt.Sprintf("%sF%d", lpfx, t.ID)
			w("func %s%s {\n\th := rt.HOf(ctx)\n%s}\n", name, sig, body("h"))
			return name
		}
		return "func" + sig + " {\n" + body("h") + "}"
	}
	endFn := func(c *PColl) string {
		params, ctxArg := "", "nil"
		if c.End.Ctx {
			params, ctxArg = "ctx context.Context", "ctx"
		}
		if c.End.Err {
			return fmt.Sprintf("func(%s) error { return h.End(%d, %s) }", params, c.ID, ctxArg)
		}
		return fmt.Sprintf("func(%s) { h.End(%d, %s) }", params, c.ID, ctxArg)
	}
	var items []renderItem
	switch p.ConcMode {
	case ArgConst:
		items = append(items, renderItem{render: func() string {
			return "cff.Concurrency(" + pr.probe("concurrency", fmt.Sprint(p.ConcConst)) + ")"
		}})
	case ArgRuntime:
		items = append(items, renderItem{render: func() string { return "cff.Concurrency(" + pr.probe("concurrency", "h.Conc(0)") + ")" }})
	}
	switch p.COEMode {
	case ArgConst:
		items = append(items, renderItem{render: func() string { return "cff.ContinueOnError(" + pr.probe("continue-on-error", "true") + ")" }})
	case ArgConstFalse:
		items = append(items, renderItem{render: func() string { return "cff.ContinueOnError(" + pr.probe("continue-on-error", "false") + ")" }})
	case ArgRuntime:
		items = append(items, renderItem{render: func() string {
			return "cff.ContinueOnError(" + pr.probe("continue-on-error", "h.Bool(0) && !h.Bool(1)") + ")"
		}})
	}
	if p.Emitters > 0 {
		items = append(items, renderItem{render: func() string {
			return strings.Join(emitterOpts(pr, p.Emitters, p.EmitNest, p.EmitShared, p.EmitSlice, p.EmitNext), ",\n\t\t")
		}})
		if p.InstrPar {
			items = append(items, renderItem{render: func() string {
				return "cff.InstrumentParallel(" + pr.probe("instrument-parallel", fmt.Sprintf("%q", "f"+fmt.Sprint(pr.p.ID))) + ")"
			}})
		}
	}
	groups := map[int][]*PTask{}
	var gorder []int
	for i := range p.Tasks {
		t := &p.Tasks[i]
		if t.Group == 0 {
			items = append(items, renderItem{render: func() string {
				s := "cff.Task(" + pr.fnProbe(rng, "task-func", taskFn(t))
				if t.Instr {
					s += ", cff.Instrument(" + pr.probe("instrument", fmt.Sprintf("%q", fmt.Sprintf("t%d", t.ID))) + ")"
				}
				return s + ")"
			}})
			continue
		}
		if groups[t.Group] == nil {
			gorder = append(gorder, t.Group)
		}
		groups[t.Group] = append(groups[t.Group], t)
	}
	for _, g := range gorder {
		g := g
		items = append(items, renderItem{render: func() string {
			var a []string
			for _, t := range groups[g] {
				a = append(a, pr.fnProbe(rng, "tasks-func", taskFn(t)))
			}
			return "cff.Tasks(" + strings.Join(a, ",\n\t\t\t") + ")"
		}})
	}
	for i := range p.Colls {
		c := &p.Colls[i]
		items = append(items, renderItem{render: func() string {
			info := ci[c.ID]
			var params []string
			ctxArg := "nil"
			if c.Ctx {
				params = append(params, "ctx context.Context")
				ctxArg = "ctx"
			}
			var call string
			foldLeft := ""
			if c.Map {
				params = append(params, "k "+info.keyT, "v "+info.elemT)
				call = fmt.Sprintf("%%s.Elem(%d, %s, int64(k), %s(v))", c.ID, ctxArg, info.unE)
			} else if c.Index {
				params = append(params, "i int", "v "+info.elemT)
				call = fmt.Sprintf("%%s.Elem(%d, %s, int64(i), %s(v))", c.ID, ctxArg, info.unE)

			} else {
				params = append(params, "v "+info.elemT)
				call = fmt.Sprintf("%%s.Elem(%d, %s, -1, %s(v))", c.ID, ctxArg, info.unE)
			}
			sig := "(" + strings.Join(params, ", ") + ")"
			body := func(h string) string {
				if c.Err {
					return foldLeft + "\treturn " + fmt.Sprintf(call, h) + "\n"
				}
				return foldLeft + "\t" + fmt.Sprintf(call, h) + "\n"
			}
			if c.Err {
				sig += " error"
			}
			var fn string
			if c.Form == FormMethod && !(p.Generic && info.elemT == "T") {
				w("func (w *%sw) C%d%s {\n%s}\n", lpfx, c.ID, sig, body("w.h"))
				fn = fmt.Sprintf("w.C%d", c.ID)
			} else {
				fn = "func" + sig + " {\n" + body("h") + "}"
			}
			name, endName := "cff.Slice", "cff.SliceEnd"
			if c.Map {
				name, endName = "cff.Map", "cff.MapEnd"
			}
			s := name + "(" + pr.fnProbe(rng, "element-func", fn) + ", "
			if p.MutArg && !pr.mutDone {
				pr.mutDone = true
				pr.nargs++
				s += info.varName
				pr.mutVar, pr.mutNew = info.varName, "nil"
			} else {
				s += pr.probe("collection", info.varName)
			}
			if c.End != nil {
				s += ", " + endName + "(" + pr.fnProbe(rng, "end-func", endFn(c)) + ")"
			}
			return s + ")"
		}})
	}
	rng.Shuffle(len(items), func(i, j int) { items[i], items[j] = items[j], items[i] })
	if p.ErrIdent {
		pr.errAt = 1
		if e := int(uint64(p.OptSeed) % 16); e >= 8 {
			pr.errAt = e - 6
		}
		// arguments that steer the directive get their share
		switch sel := (uint64(p.OptSeed) >> 4) % 4; {
		case sel == 0 && p.COEMode != ArgAbsent:
			pr.errAt, pr.errWhat = 0, "continue-on-error"
		case sel == 1 && p.ConcMode != ArgAbsent:
			pr.errAt, pr.errWhat = 0, "concurrency"
		}
	}
	open, close := pr.host(uint64(p.OptSeed)>>17, "cff.Parallel(")
	fb.WriteString(open + pr.probe("ctx", "ctx"))
	for _, it := range items {
		fb.WriteString(",\n\t\t" + it.render())
	}
	fb.WriteString(",\n\t)" + close)
	// the caller owns its collections again once the directive has returned (also when it
	// returned early and element functions are still running): it clears them for reuse
	for i := range p.Colls {
		c := &p.Colls[i]
		info := ci[c.ID]
		if c.Map {
			fmt.Fprintf(&fb, "\tfor k := range %s {\n\t\tdelete(%s, k)\n\t}\n", info.varName, info.varName)
		} else {
			fmt.Fprintf(&fb, "\tfor i := range %s {\n\t\tvar zero %s\n\t\t%s[i] = zero\n\t}\n", info.varName, info.elemT, info.varName)
		}
	}
	fb.WriteString("\treturn nil, err\n}\n")
	return fb.String()
}

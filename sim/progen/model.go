package progen

import "sort"

// Outcomes of user functions in a fault plan.
const (
	OK = iota
	Err
	Panic
	Goexit
)

// Predicate outcomes.
const (
	PredTrue = iota
	PredFalse
	PredPanic
)

// FlowPlan fixes every input of one execution of a flow.
type FlowPlan struct {
	Params []uint64    `json:"params,omitempty"`
	Task   map[int]int `json:"task,omitempty"` // task id -> outcome (default OK)
	Pred   map[int]int `json:"pred,omitempty"` // task id -> predicate outcome (default true)
}

// FlowModel is the result of the sequential reference interpreter: what an
// execution in which every runnable function runs must look like.
type FlowModel struct {
	PredEval  map[int]bool     // predicate is evaluated
	PredArgs  map[int][]uint64 // with these arguments
	JobRuns   map[int]bool     // the task's job runs (its dependencies succeeded)
	Invoked   map[int]bool     // the task function is called
	Args      map[int][]uint64 // with these arguments
	Outs      map[int][]uint64 // values its outputs carry afterwards (fallback / zero included)
	Failed    map[int]bool     // the task's job fails
	UsedFB    map[int]bool     // fallback values were substituted
	Avail     []bool           // per type: a value is available
	Val       []uint64         // per type: that value
	Results   []uint64         // values of the Results targets if the flow succeeds
	AnyFailed bool
}

// SortedTasks returns the tasks ordered by ID (a topological order).
func (f *FlowP) SortedTasks() []*TaskP {
	ts := make([]*TaskP, len(f.Tasks))
	for i := range f.Tasks {
		ts[i] = &f.Tasks[i]
	}
	sort.Slice(ts, func(i, j int) bool { return ts[i].ID < ts[j].ID })
	return ts
}

// EvalFlow runs the reference interpreter.
func EvalFlow(prog int, f *FlowP, pl *FlowPlan) *FlowModel {
	m := &FlowModel{PredEval: map[int]bool{}, PredArgs: map[int][]uint64{}, JobRuns: map[int]bool{}, Invoked: map[int]bool{}, Args: map[int][]uint64{},
		Outs: map[int][]uint64{}, Failed: map[int]bool{}, UsedFB: map[int]bool{}, Avail: make([]bool, len(f.Types)), Val: make([]uint64, len(f.Types))}
	for k, t := range f.Params {
		m.Avail[t] = true
		m.Val[t] = pl.Params[k]
	}
	vals := func(ts []int) ([]uint64, bool) {
		out := make([]uint64, len(ts))
		for i, t := range ts {
			if !m.Avail[t] {
				return nil, false
			}
			out[i] = m.Val[t]
		}
		return out, true
	}
	for _, t := range f.SortedTasks() {
		args, ok := vals(t.In)
		predOutcome := PredTrue
		if t.Pred != nil {
			pargs, pok := vals(t.Pred.In)
			if !pok {
				ok = false
			} else {
				m.PredEval[t.ID] = true
				m.PredArgs[t.ID] = pargs
				predOutcome = pl.Pred[t.ID]
			}
		}
		if !ok {
			continue // a dependency failed: the job never runs
		}
		m.JobRuns[t.ID] = true
		outs := make([]uint64, len(t.Out))
		fallback := func() {
			for k := range outs {
				outs[k] = FBVal(prog, t.ID, k)
				if t.FBNil {
					outs[k] = 0 // the literal nil
				}
			}
			m.UsedFB[t.ID] = true
		}
		failed := false
		switch predOutcome {
		case PredFalse:
			// not invoked, zero values, success
		case PredPanic:
			if t.Fallback {
				fallback()
			} else {
				failed = true
			}
		default:
			m.Invoked[t.ID] = true
			m.Args[t.ID] = args
			switch pl.Task[t.ID] {
			case OK:
				for k := range outs {
					outs[k] = OutVal(prog, t.ID, k, args)
				}
			case Goexit:
				failed = true // the worker dies; FallbackWith does not apply
			default:
				if t.Fallback {
					fallback()
				} else {
					failed = true
				}
			}
		}
		if failed {
			m.Failed[t.ID] = true
			m.AnyFailed = true
			continue
		}
		m.Outs[t.ID] = outs
		for k, o := range t.Out {
			m.Avail[o] = true
			m.Val[o] = outs[k]
		}
	}
	for _, r := range f.Results {
		m.Results = append(m.Results, m.Val[r])
	}
	return m
}

// Downstream returns, per task id, the set of task ids it transitively
// depends on (through inputs and predicate inputs).
func (f *FlowP) Upstream() map[int]map[int]bool {
	prov := map[int]int{} // type -> task id
	for i := range f.Tasks {
		for _, o := range f.Tasks[i].Out {
			prov[o] = f.Tasks[i].ID
		}
	}
	up := map[int]map[int]bool{}
	for _, t := range f.SortedTasks() {
		s := map[int]bool{}
		add := func(ty int) {
			if p, ok := prov[ty]; ok {
				s[p] = true
				for k := range up[p] {
					s[k] = true
				}
			}
		}
		for _, in := range t.In {
			add(in)
		}
		if t.Pred != nil {
			for _, in := range t.Pred.In {
				add(in)
			}
		}
		up[t.ID] = s
	}
	return up
}

package progen

import (
	"math/rand"
)

// GenOpts tunes the program generator.
type GenOpts struct {
	MaxTasks  int
	NoOther   bool // do not draw types from unimported packages
	Emitters  bool // allow emitters / instrumentation
	Modifier  bool // restrict flows to the modifier-mode subset
	AutoInstr bool
	// NoIndexEnd: allow (and force) Slice functions without index together with SliceEnd.
	NoIndexEnd bool
	// PredHeavy: every other task gets a predicate with inputs (the first program of a package:
	// whatever the tool numbers per package and per flow starts from the same small numbers there).
	PredHeavy bool
}

func pickDistinct(rng *rand.Rand, from []int, n int) []int {
	if n > len(from) {
		n = len(from)
	}
	idx := rng.Perm(len(from))[:n]
	out := make([]int, n)
	for i, k := range idx {
		out[i] = from[k]
	}
	return out
}

// GenFlow draws a random well-formed flow.
func GenFlow(rng *rand.Rand, o GenOpts) *FlowP {
	f := &FlowP{OptSeed: rng.Int63(), WrapArgs: rng.Intn(4) != 0, ErrIdent: rng.Intn(3) == 0 && !o.Modifier}
	f.MutArg = !o.Modifier && rng.Intn(4) == 0
	maxT := o.MaxTasks
	if maxT < 2 {
		maxT = 8
	}
	nT := 1 + rng.Intn(maxT)
	if rng.Intn(3) == 0 {
		nT = 1 + rng.Intn(3)
	}
	f.Generic = !o.Modifier && rng.Intn(7) == 0
	// tree: every task has at most one input, taken from any earlier output: pipelines that fan
	// out at depth beside independent roots (the graph is wider than any one of its levels)
	tree := !o.Modifier && rng.Intn(6) == 0
	if tree && nT < 5 {
		nT = 5 + rng.Intn(4)
	}
	usedBasic := map[int]bool{}
	newType := func() int {
		k := rng.Intn(NumTypeKinds - 1) // TOther drawn separately
		if o.Modifier {
			k = []int{TStruct, TPointer, TNamed, TSlice}[rng.Intn(4)]
		}
		spec := TypeSpec{Kind: k}
		switch {
		case o.Modifier:
			// (the one type with two spellings is within what modifier mode supports)
			if rng.Intn(8) == 0 && !usedBasic[100] {
				usedBasic[100] = true
				spec = TypeSpec{Kind: TBytes}
			}
		case usedBasic[101] && !usedBasic[102]:
			// the unnamed function type is in the flow: give it a named sibling it is assignable to
			usedBasic[102] = true
			spec = TypeSpec{Kind: TFunc}
		case f.Generic && rng.Intn(2) == 0:
			spec = TypeSpec{Kind: TParam}
		case rng.Intn(12) == 0:
			spec = TypeSpec{Kind: TAnon}
		case rng.Intn(14) == 0 && !usedBasic[100]:
			usedBasic[100] = true
			spec = TypeSpec{Kind: TBytes}
		case rng.Intn(12) == 0 && !usedBasic[101]:
			usedBasic[101] = true
			spec = TypeSpec{Kind: TFuncLit}
		case rng.Intn(7) == 0:
			// a predeclared type; every flow type must be a distinct Go type
			if x := rng.Intn(len(BasicNames)); !usedBasic[x] {
				usedBasic[x] = true
				spec = TypeSpec{Kind: TBasic, X: x}
			}
		}
		f.Types = append(f.Types, spec)
		return len(f.Types) - 1
	}
	consumed := map[int]int{}
	nOther := 0
	usedOther := map[int]bool{}
	var avail []int
	for i, n := 0, rng.Intn(4); i < n; i++ {
		t := newType()
		f.Params = append(f.Params, t)
		avail = append(avail, t)
	}
	if o.Emitters && rng.Intn(10) < 7 {
		f.Emitters = 1 + rng.Intn(3)
		f.EmitNest = f.Emitters >= 2 && rng.Intn(2) == 0
		f.InstrFlow = rng.Intn(4) != 0
		f.EmitShared = rng.Intn(3) == 0
		if rng.Intn(5) == 0 {
			f.Emitters, f.EmitNest, f.EmitSlice = 2, false, true
		} else if f.Emitters >= 2 && !f.EmitNest && rng.Intn(3) == 0 {
			f.EmitNext = true
		}
	}
	for id := 0; id < nT; id++ {
		t := TaskP{ID: id}
		// prefer inputs nobody consumed yet
		var fresh, rest []int
		for _, a := range avail {
			if consumed[a] == 0 {
				fresh = append(fresh, a)
			} else {
				rest = append(rest, a)
			}
		}
		// A task written as a function of another package (aux) can only
		// mention types that package can name: types of a third package the
		// program file does not import, and (through type parameters) local
		// named integer types. Every other task cannot mention the former.
		isAux := !o.NoOther && !f.Generic && rng.Intn(5) == 0
		okFor := func(ty int) bool {
			k := f.Types[ty].Kind
			if isAux {
				return k == TOther || k == TNamed
			}
			return k != TOther
		}
		filter := func(ts []int) []int {
			var out []int
			for _, ty := range ts {
				if okFor(ty) {
					out = append(out, ty)
				}
			}
			return out
		}
		fresh, rest = filter(fresh), filter(rest)
		nin := rng.Intn(4)
		in := pickDistinct(rng, fresh, nin)
		if len(in) < nin && rng.Intn(2) == 0 {
			in = append(in, pickDistinct(rng, rest, nin-len(in))...)
		}
		if tree {
			in = nil
			if all := append(append([]int{}, fresh...), rest...); len(all) > 0 && rng.Intn(4) != 0 {
				in = pickDistinct(rng, all, 1)
			}
		}
		t.In = in
		for _, a := range in {
			consumed[a]++
		}
		nout := 1 + rng.Intn(2)
		if rng.Intn(6) == 0 {
			nout = 3
		}
		if rng.Intn(9) == 0 && !o.Modifier {
			nout = 0 // cff.Invoke(true)
		}
		t.Ctx = rng.Intn(2) == 0
		t.Err = rng.Intn(2) == 0
		if !o.Modifier {
			var predAvail []int
			for _, ty := range avail {
				if f.Types[ty].Kind != TOther {
					predAvail = append(predAvail, ty)
				}
			}
			if tree && rng.Intn(3) != 0 {
				// mostly predicate-free
			} else if (rng.Intn(4) == 0 || (o.PredHeavy && rng.Intn(2) == 0)) && len(predAvail) > 0 {
				p := &PredP{Ctx: rng.Intn(2) == 0}
				p.In = pickDistinct(rng, predAvail, rng.Intn(3))
				for _, a := range p.In {
					consumed[a]++
				}
				t.Pred = p
			} else if rng.Intn(12) == 0 {
				t.Pred = &PredP{Ctx: rng.Intn(2) == 0}
			}
			if t.Err && rng.Intn(5) < 2 {
				t.Fallback = true // for a task without outputs: the value-less cff.FallbackWith()
			}
			switch r := rng.Intn(10); {
			case r < 5:
				t.Form = FormLiteral
			case r < 8:
				t.Form = FormMethod
			default:
				t.Form = FormTop
				t.Ctx = true
			}
			if isAux {
				t.Form = FormAux
				t.Ctx = true
			}
			t.WrapFn = f.WrapArgs && rng.Intn(3) == 0
		}
		if isAux && o.Modifier {
			t.Form = FormAux
			t.Ctx = true
		}
		if f.Emitters > 0 && rng.Intn(10) < 6 && !o.AutoInstr && !o.Modifier {
			t.Instr = true // (modifier mode leaves a task-level cff.Instrument unexpanded: not drawn there)
		}
		for k := 0; k < nout; k++ {
			ty := newType()
			if isAux {
				if nOther < NumOther && rng.Intn(10) < 7 {
					x := rng.Intn(NumOther)
					// namesakes: other.X0 and other2.X0 in one flow, now and then
					if usedOther[0] && !usedOther[12] && rng.Intn(2) == 0 {
						x = 12
					} else if usedOther[12] && !usedOther[0] && rng.Intn(2) == 0 {
						x = 0
					}
					for usedOther[x] {
						x = (x + 1) % NumOther
					}
					usedOther[x] = true
					f.Types[ty] = TypeSpec{Kind: TOther, X: x}
					nOther++
				} else {
					f.Types[ty] = TypeSpec{Kind: TNamed}
				}
			}
			t.Out = append(t.Out, ty)
		}
		if t.Fallback && len(t.Out) > 0 && rng.Intn(3) == 0 {
			t.FBNil = true
			for _, ty := range t.Out {
				switch f.Types[ty].Kind {
				case TPointer, TSlice, TMap, TIface, TFunc, TBytes, TFuncLit:
				default:
					t.FBNil = false
				}
			}
		}
		if f.Generic {
			// a function that mentions a type parameter can only be written inside the generic function
			for _, ty := range append(append([]int{}, t.In...), t.Out...) {
				if f.Types[ty].Kind == TParam {
					t.Form = FormLiteral
				}
			}
		}
		f.Tasks = append(f.Tasks, t)
		avail = append(avail, t.Out...)
	}
	// every parameter must be consumed by a task (or predicate)
	for _, p := range f.Params {
		if consumed[p] > 0 {
			continue
		}
		var cands []int
		for i := range f.Tasks {
			if f.Tasks[i].Form != FormAux || f.Types[p].Kind == TNamed {
				cands = append(cands, i)
			}
		}
		if len(cands) == 0 {
			// only aux tasks exist: consume it in a predicate-free extra task
			extra := TaskP{ID: len(f.Tasks), In: []int{p}, Form: FormLiteral}
			if o.Modifier {
				// modifier mode is specified for plain tasks only: no cff.Invoke(true), so the task gets a result
				extra.Out = []int{newType()}
			}
			f.Tasks = append(f.Tasks, extra)
			consumed[p]++
			continue
		}
		t := &f.Tasks[cands[rng.Intn(len(cands))]]
		t.In = append(t.In, p)
		if f.Types[p].Kind == TParam {
			t.Form = FormLiteral // only a literal inside the generic function can mention its type parameters
		}
		consumed[p]++
	}
	// every output must be consumed: unconsumed ones become Results
	for i := range f.Tasks {
		for _, out := range f.Tasks[i].Out {
			if consumed[out] == 0 || rng.Intn(5) == 0 {
				f.Results = append(f.Results, out)
			}
		}
	}
	if len(f.Results) > 0 && !o.Modifier && rng.Intn(6) == 0 {
		// the same value asked for twice (a response variable and a cache slot, say)
		f.Results = append(f.Results, f.Results[rng.Intn(len(f.Results))])
	}
	rng.Shuffle(len(f.Results), func(i, j int) { f.Results[i], f.Results[j] = f.Results[j], f.Results[i] })
	switch rng.Intn(4) {
	case 0:
		f.ConcMode = ArgAbsent
	case 1:
		f.ConcMode, f.ConcConst = ArgConst, 1+rng.Intn(4)
	default:
		f.ConcMode = ArgRuntime
	}
	// listing order
	rng.Shuffle(len(f.Tasks), func(i, j int) { f.Tasks[i], f.Tasks[j] = f.Tasks[j], f.Tasks[i] })
	return f
}

// Relist returns a copy of f with a different listing and option order but
// the same abstract program.
func Relist(rng *rand.Rand, f *FlowP) *FlowP {
	g := *f
	g.Tasks = append([]TaskP{}, f.Tasks...)
	rng.Shuffle(len(g.Tasks), func(i, j int) { g.Tasks[i], g.Tasks[j] = g.Tasks[j], g.Tasks[i] })
	g.OptSeed = rng.Int63()
	return &g
}

// GenPar draws a random Parallel program.
func GenPar(rng *rand.Rand, o GenOpts) *ParP {
	p := &ParP{OptSeed: rng.Int63(), WrapArgs: rng.Intn(4) != 0, ErrIdent: rng.Intn(3) == 0}
	p.MutArg = rng.Intn(4) == 0
	if o.Emitters && rng.Intn(10) < 7 {
		p.Emitters = 1 + rng.Intn(3)
		p.EmitNest = p.Emitters >= 2 && rng.Intn(2) == 0
		p.InstrPar = rng.Intn(4) != 0
		p.EmitShared = rng.Intn(3) == 0
		if rng.Intn(5) == 0 {
			p.Emitters, p.EmitNest, p.EmitSlice = 2, false, true
		} else if p.Emitters >= 2 && !p.EmitNest && rng.Intn(3) == 0 {
			p.EmitNext = true
		}
	}
	switch rng.Intn(5) {
	case 0, 1:
		p.COEMode = ArgAbsent
	case 2:
		p.COEMode = ArgConst
	case 3:
		p.COEMode = ArgRuntime
	case 4:
		p.COEMode = ArgConstFalse
	}
	switch rng.Intn(4) {
	case 0:
		p.ConcMode = ArgAbsent
	case 1:
		p.ConcMode, p.ConcConst = ArgConst, 1+rng.Intn(4)
	default:
		p.ConcMode = ArgRuntime
	}
	nt := rng.Intn(5)
	id := 0
	group := 0
	for i := 0; i < nt; {
		if rng.Intn(2) == 0 {
			// cff.Tasks group of 1..3
			group++
			for k, n := 0, 1+rng.Intn(3); k < n; k++ {
				p.Tasks = append(p.Tasks, PTask{ID: id, Ctx: rng.Intn(2) == 0, Err: rng.Intn(2) == 0, Form: rng.Intn(2), Group: group})
				id++
				i++
			}
		} else {
			t := PTask{ID: id, Ctx: rng.Intn(2) == 0, Err: rng.Intn(2) == 0, Form: rng.Intn(3)}
			if t.Form == FormTop {
				t.Ctx = true
			}
			if p.Emitters > 0 && rng.Intn(10) < 6 && !o.AutoInstr {
				t.Instr = true
			}
			p.Tasks = append(p.Tasks, t)
			id++
			i++
		}
	}
	nc := rng.Intn(3)
	if (nt == 0 && nc == 0) || (o.NoIndexEnd && nc == 0) {
		nc = 1
	}
	for i := 0; i < nc; i++ {
		c := PColl{ID: id, Map: rng.Intn(3) == 0 && !(o.NoIndexEnd && i == 0), Ctx: rng.Intn(2) == 0, Err: rng.Intn(2) == 0, Named: rng.Intn(3) == 0, ElemKind: rng.Intn(3), Form: rng.Intn(2)}
		id++
		if !c.Map {
			c.Index = rng.Intn(3) != 0
		} else {
			c.Named = false // cff only accepts unnamed map types
		}
		if p.COEMode == ArgAbsent && rng.Intn(2) == 0 {
			c.End = &PEnd{Ctx: rng.Intn(2) == 0, Err: rng.Intn(2) == 0}
			if !c.Map && !o.NoIndexEnd {
				// Slice without index + SliceEnd lives in its own package (it did
				// not compile before the fix in /repo; kept apart so that a
				// regression is reported against C10 and not as a build failure).
				c.Index = true
			}
		}
		if o.NoIndexEnd && !c.Map && i == 0 {
			c.Index = false
			if p.COEMode != ArgAbsent {
				p.COEMode = ArgAbsent
			}
			if c.End == nil {
				c.End = &PEnd{Ctx: rng.Intn(2) == 0, Err: rng.Intn(2) == 0}
			}
		}
		p.Colls = append(p.Colls, c)
	}
	p.Generic = rng.Intn(6) == 0
	return p
}

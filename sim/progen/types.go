// Package progen generates abstract cff programs (flows and parallels),
// prints them as cff-tagged Go source, and evaluates them with a sequential
// reference model.
package progen

// Type spellings of flow values.
const (
	TStruct  = iota // type X struct{ V uint64 }
	TPointer        // *X
	TNamed          // type X uint64
	TSlice          // []Xe
	TMap            // map[string]Xe
	TGeneric        // rt.Box[Xe]
	TIface          // interface type with a local implementation
	TArray          // [2]Xe
	TFunc           // type X func() uint64
	TOther          // type from a package the program file does not import
	NumTypeKinds
	// Kinds drawn separately (not through NumTypeKinds):
	TBasic // predeclared type: X selects uint64, int64, string, uintptr
	TParam // type parameter (constraint ~uint64) of the generic function enclosing the flow
	TAnon  // unnamed struct type, spelled out wherever it is used
	TBytes // one type, two spellings: producers say []byte, consumers say []uint8
	// TFuncLit is the unnamed type func() uint64: a different type from every
	// TFunc type of the flow, yet assignable to and from each of them.
	TFuncLit
)

// BasicNames are the predeclared types a flow value can have (TypeSpec.X).
var BasicNames = []string{"uint64", "int64", "string", "uintptr"}

// Forms in which a user function is written.
const (
	FormLiteral = iota // function literal capturing h
	FormMethod         // bound method value w.Tn
	FormTop            // top-level function, h taken from ctx
	FormAux            // function of another package (aux), h taken from ctx
)

type TypeSpec struct {
	Kind int `json:"k"`
	X    int `json:"x,omitempty"` // TOther: index into the pool other.X0..X7
}

type PredP struct {
	In  []int `json:"in,omitempty"`
	Ctx bool  `json:"ctx,omitempty"`
}

type TaskP struct {
	ID       int    `json:"id"`
	In       []int  `json:"in,omitempty"`
	Out      []int  `json:"out,omitempty"`
	Ctx      bool   `json:"ctx,omitempty"`
	Err      bool   `json:"err,omitempty"`
	Pred     *PredP `json:"pred,omitempty"`
	Fallback bool   `json:"fb,omitempty"`
	// FBNil: every FallbackWith value is the literal nil (all outputs have nil-able types).
	FBNil  bool `json:"fb_nil,omitempty"`
	Instr  bool `json:"instr,omitempty"`
	Form   int  `json:"form,omitempty"`
	WrapFn bool `json:"wrapfn,omitempty"`
	// AutoInstr is set by the printer: with -auto-instrument the generator
	// instruments exactly the tasks listed after cff.InstrumentFlow.
	AutoInstr bool `json:"auto_instr,omitempty"`
}

// Concurrency / ContinueOnError argument modes.
const (
	ArgAbsent     = iota
	ArgConst      // literal constant in the source
	ArgRuntime    // h.Conc(k) / h.Bool(k): value chosen per execution
	ArgConstFalse // ContinueOnError(false)
)

type FlowP struct {
	Types     []TypeSpec `json:"types"`
	Params    []int      `json:"params,omitempty"`
	Results   []int      `json:"results,omitempty"`
	Tasks     []TaskP    `json:"tasks"` // in listing order; IDs are topological ranks
	ConcMode  int        `json:"conc_mode,omitempty"`
	ConcConst int        `json:"conc_const,omitempty"`
	Emitters  int        `json:"emitters,omitempty"`
	EmitNest  bool       `json:"emit_nest,omitempty"`
	InstrFlow bool       `json:"instr_flow,omitempty"`
	// EmitShared: the first emitter is a (nested) stack shared by every
	// execution of the run, as a process-wide emitter would be.
	EmitShared bool `json:"emit_shared,omitempty"`
	// EmitSlice: the two emitters are passed as cff.EmitterStack(s...) where s
	// is a slice (starting with cff.NopEmitter()) that the whole run shares.
	EmitSlice bool `json:"emit_slice,omitempty"`
	// EmitNext: every emitter option reads cff.WithEmitter(h.NextEmitter()):
	// textually identical arguments with different values.
	EmitNext bool  `json:"emit_next,omitempty"`
	OptSeed  int64 `json:"opt_seed"`            // shuffles the option order
	WrapArgs bool  `json:"wrap_args"`           // wrap directive arguments in rt.Arg probes
	ErrIdent bool  `json:"err_ident,omitempty"` // a directive argument mentions the user's variable err
	Generic  bool  `json:"generic,omitempty"`   // the enclosing function is generic; TParam types are its type parameters
	// MutArg: the first cff.Params value is a bare variable, and the next
	// argument in source order is a call that overwrites that variable (with
	// MutVal) as a side effect: the value read must still be the original.
	MutArg bool `json:"mut_arg,omitempty"`
}

// MutVal is what a later argument's side effect stores into the variable an
// earlier argument reads.
const MutVal uint64 = 0x0bad0bad0bad0001

type PEnd struct {
	Ctx bool `json:"ctx,omitempty"`
	Err bool `json:"err,omitempty"`
}

type PTask struct {
	ID    int  `json:"id"`
	Ctx   bool `json:"ctx,omitempty"`
	Err   bool `json:"err,omitempty"`
	Instr bool `json:"instr,omitempty"`
	Form  int  `json:"form,omitempty"`
	Group int  `json:"group,omitempty"` // 0: own cff.Task; g>0: member of the g-th cff.Tasks(...)
}

type PColl struct {
	ID       int   `json:"id"`
	Map      bool  `json:"map,omitempty"`
	Index    bool  `json:"index,omitempty"` // slice function takes the index
	Ctx      bool  `json:"ctx,omitempty"`
	Err      bool  `json:"err,omitempty"`
	End      *PEnd `json:"end,omitempty"`
	Named    bool  `json:"named,omitempty"`     // named slice/map type
	ElemKind int   `json:"elem_kind,omitempty"` // 0 named uint64, 1 struct, 2 pointer
	Form     int   `json:"form,omitempty"`
}

type ParP struct {
	Tasks      []PTask `json:"tasks,omitempty"`
	Colls      []PColl `json:"colls,omitempty"`
	ConcMode   int     `json:"conc_mode,omitempty"`
	ConcConst  int     `json:"conc_const,omitempty"`
	COEMode    int     `json:"coe_mode,omitempty"`
	Emitters   int     `json:"emitters,omitempty"`
	EmitNest   bool    `json:"emit_nest,omitempty"`
	InstrPar   bool    `json:"instr_par,omitempty"`
	EmitShared bool    `json:"emit_shared,omitempty"`
	EmitSlice  bool    `json:"emit_slice,omitempty"`
	EmitNext   bool    `json:"emit_next,omitempty"`
	OptSeed    int64   `json:"opt_seed"`
	WrapArgs   bool    `json:"wrap_args"`
	ErrIdent   bool    `json:"err_ident,omitempty"`
	Generic    bool    `json:"generic,omitempty"` // enclosing function is generic
	// MutArg: the first collection is passed as a bare variable, and the next
	// argument in source order is a call that sets that variable to nil.
	MutArg bool `json:"mut_arg,omitempty"`
}

// ProbeInfo describes one rt.Arg probe of a program, in source order.
type ProbeInfo struct {
	What string `json:"what"`
	// Next: the probe is written rt.ArgNext(h, expr), without its number, so that
	// several arguments can be textually identical; the n-th such probe to be
	// evaluated reports as the n-th one in source order.
	Next bool `json:"next,omitempty"`
}

// Prog is one generated program.
type Prog struct {
	ID     int         `json:"id"`
	Pkg    string      `json:"pkg"`
	Name   string      `json:"name"`
	Flow   *FlowP      `json:"flow,omitempty"`
	Par    *ParP       `json:"par,omitempty"`
	Probes []ProbeInfo `json:"probes,omitempty"`
	// Special marks programs drawn for a specific purpose (e.g. "noindex-sliceend").
	Special string `json:"special,omitempty"`
	// ModifierOK: the flow is inside the subset modifier mode supports.
	ModifierOK bool `json:"modifier_ok,omitempty"`
	// AutoInstr: the package is generated with -auto-instrument.
	AutoInstr bool `json:"auto_instr,omitempty"`
	// PlainNames: user variables are not named like generated identifiers.
	PlainNames bool `json:"plain_names,omitempty"`
}

// Sentinel is pre-stored in every Results target.
const Sentinel uint64 = 0x5e5e5e5e5e5e5e5e

func mix(h, v uint64) uint64 {
	for i := 0; i < 8; i++ {
		h ^= v & 0xff
		h *= 1099511628211
		v >>= 8
	}
	return h
}

// OutVal is the value of output o of task t computed from its arguments. It
// is never 0 (0 is the zero value) and never the sentinel.
func OutVal(prog, task, o int, args []uint64) uint64 {
	h := uint64(14695981039346656037)
	h = mix(h, uint64(prog)<<32|uint64(task)<<8|uint64(o))
	for _, a := range args {
		h = mix(h, a)
	}
	h |= 1
	if h == Sentinel {
		h ^= 2
	}
	return h
}

// ErrVal is what a failing task returns next to its error (a partial result,
// a stale cache entry): nobody may ever see it.
const ErrVal uint64 = 0x0bad0bad0bad0e01

// FBVal is the FallbackWith value of output o of task t.
func FBVal(prog, task, o int) uint64 {
	return (uint64(0xfb)<<48 | uint64(prog)<<24 | uint64(task)<<8 | uint64(o)) | 1
}

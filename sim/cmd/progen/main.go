// Command progen writes a corpus of cff-tagged test programs and the
// registry file the L2 harness is compiled with.
package main

import (
	"encoding/json"
	"flag"
	"fmt"
	"math/rand"
	"os"
	"path/filepath"
	"strings"

	"cffverif/progen"
)

func main() {
	out := flag.String("out", "", "module root to write corpus/ and l2/registry_gen.go into")
	seed := flag.Int64("seed", 1, "seed")
	npkg := flag.Int("pkgs", 6, "number of corpus packages")
	per := flag.Int("per", 24, "programs per package")
	maxTasks := flag.Int("maxtasks", 8, "max tasks per flow")
	kind := flag.String("kind", "mixed", "mixed|modifier")
	modEmit := flag.Bool("modemit", false, "modifier-kind corpora also use cff.WithEmitter / cff.InstrumentFlow / cff.Instrument")
	plain := flag.Bool("plainnames", false, "do not name user variables like identifiers the generated code introduces")
	flag.Parse()
	rng := rand.New(rand.NewSource(*seed))
	var regs []string
	id := 0
	nprogs := 0
	type pkgInfo struct {
		Name      string `json:"name"`
		AutoInstr bool   `json:"auto_instr"`
		Special   bool   `json:"special,omitempty"`
	}
	var pkgs []pkgInfo
	for k := 0; k < *npkg; k++ {
		opts := progen.GenOpts{MaxTasks: *maxTasks, Emitters: k%3 != 0, AutoInstr: k%6 == 5, Modifier: *kind == "modifier"}
		if opts.Modifier {
			// modifier mode is specified for Params, Results, Concurrency and plain Tasks only
			opts.Emitters, opts.AutoInstr = false, false
			if *kind == "modifier" && *modEmit {
				opts.Emitters = k%3 != 0 // ... and is also run with emitters and InstrumentFlow (C18)
			}
		}
		// packages generated with -auto-instrument are named q.., the others p..: the tool is run
		// once per group, on the pattern corpus/p... (or q...), so that one invocation processes
		// several packages
		pkg := fmt.Sprintf("p%02d", k)
		if opts.AutoInstr {
			pkg = fmt.Sprintf("q%02d", k)
		}
		dir := filepath.Join(*out, "corpus", pkg)
		if err := os.MkdirAll(dir, 0o755); err != nil {
			panic(err)
		}
		pkgs = append(pkgs, pkgInfo{Name: pkg, AutoInstr: opts.AutoInstr})
		regs = nil
		var auxSrc strings.Builder
		auxSrc.WriteString(progen.AuxHeader())
		// programs are grouped 1-3 per file: several directives in one file
		var pendBodies []string
		var pendIDs []int
		pendExt := false
		flush := func() {
			if len(pendBodies) == 0 {
				return
			}
			name := "prog"
			for _, i := range pendIDs {
				name += fmt.Sprintf("_%d", i)
			}
			if pendIDs[0]%3 == 0 {
				// a long file name (what is written next to the code - line directives, comments -
				// grows with it)
				name += "_" + strings.Repeat("0", 14+pendIDs[0]%17)
			}
			if err := os.WriteFile(filepath.Join(dir, name+"_x.go"), []byte(progen.FileSource(pkg, pendBodies, pendExt)), 0o644); err != nil {
				panic(err)
			}
			// one registry file per program file, so that the driver can drop a file
			// the tool under test rejects (or whose output does not compile) and still run the others
			var reg strings.Builder
			fmt.Fprintf(&reg, "//go:build verif && go1.25\n\npackage l2\n\nimport %s \"cffverif/corpus/%s\"\n\nfunc init() {\n", pkg, pkg)
			for _, r := range regs {
				reg.WriteString(r)
			}
			reg.WriteString("}\n")
			if err := os.WriteFile(filepath.Join(*out, "l2", "registry_"+pkg+"_"+name+"_x_gen.go"), []byte(reg.String()), 0o644); err != nil {
				panic(err)
			}
			regs = nil
			pendBodies, pendIDs, pendExt = nil, nil, false
		}
		groupSize := 1 + rng.Intn(3)
		emit := func(p *progen.Prog) {
			src, aux := progen.Source(p)
			auxSrc.WriteString(aux)
			pendBodies = append(pendBodies, src)
			pendIDs = append(pendIDs, p.ID)
			pendExt = pendExt || progen.NeedsExt(p, aux)
			nprogs++
			b, _ := json.Marshal(p)
			regs = append(regs, fmt.Sprintf("\tregister(%q, %s.%s)\n", string(b), pkg, p.Name))
			if len(pendBodies) >= groupSize {
				flush()
				groupSize = 1 + rng.Intn(3)
			}
		}
		for n := 0; n < *per; n++ {
			p := &progen.Prog{ID: id, Pkg: pkg, Name: fmt.Sprintf("Prog%d", id), AutoInstr: opts.AutoInstr, ModifierOK: opts.Modifier, PlainNames: *plain}
			id++
			if *kind == "modifier" || rng.Intn(10) < 6 || n == 0 {
				fo := opts
				fo.PredHeavy = n == 0 && !opts.Modifier
				p.Flow = progen.GenFlow(rng, fo)
				emit(p)
				if rng.Intn(4) == 0 && n+1 < *per {
					q := &progen.Prog{ID: id, Pkg: pkg, Name: fmt.Sprintf("Prog%d", id), AutoInstr: opts.AutoInstr, ModifierOK: opts.Modifier, PlainNames: *plain}
					id++
					n++
					q.Flow = progen.Relist(rng, p.Flow)
					q.Special = fmt.Sprintf("relisting-of:%d", p.ID)
					emit(q)
				}
			} else {
				p.Par = progen.GenPar(rng, opts)
				emit(p)
			}
		}
		flush()
		if err := os.MkdirAll(filepath.Join(dir, "ext"), 0o755); err != nil {
			panic(err)
		}
		if err := os.WriteFile(filepath.Join(dir, "ext", "aux.go"), []byte(auxSrc.String()), 0o644); err != nil {
			panic(err)
		}
	}
	// special package: Slice without index parameter + SliceEnd
	{
		pkg := "pse"
		dir := filepath.Join(*out, "corpus", pkg)
		if err := os.MkdirAll(dir, 0o755); err != nil {
			panic(err)
		}
		var sreg strings.Builder
		sreg.WriteString("//go:build verif && go1.25\n\npackage l2\n\nimport pse \"cffverif/corpus/pse\"\n\nfunc init() {\n")
		for n := 0; n < 4 && *kind != "modifier"; n++ {
			p := &progen.Prog{ID: id, Pkg: pkg, Name: fmt.Sprintf("Prog%d", id), Special: "noindex-sliceend", PlainNames: *plain}
			id++
			p.Par = progen.GenPar(rng, progen.GenOpts{NoIndexEnd: true})
			src, _ := progen.Source(p)
			nprogs++
			if err := os.WriteFile(filepath.Join(dir, fmt.Sprintf("prog_%d_x.go", p.ID)), []byte(progen.FileSource(pkg, []string{src}, false)), 0o644); err != nil {
				panic(err)
			}
			b, _ := json.Marshal(p)
			fmt.Fprintf(&sreg, "\tregister(%q, pse.%s)\n", string(b), p.Name)
		}
		sreg.WriteString("}\n")
		if *kind != "modifier" {
			pkgs = append(pkgs, pkgInfo{Name: pkg, Special: true})
			if err := os.WriteFile(filepath.Join(*out, "l2", "registry_pse_gen.go"), []byte(sreg.String()), 0o644); err != nil {
				panic(err)
			}
		}
	}
	b, _ := json.Marshal(pkgs)
	_ = os.WriteFile(filepath.Join(*out, "corpus", "packages.json"), b, 0o644)
	_ = os.WriteFile(filepath.Join(*out, "corpus", "nprogs"), []byte(fmt.Sprint(nprogs)), 0o644)
	fmt.Printf("progen: %d programs in %d packages\n", nprogs, *npkg)
}

// Command astdiff compares the generated files (*_gen.go) of two copies of the
// same corpus token by token, ignoring comments (and therefore /*line*/
// directives) and formatting. It prints one line per differing file and exits
// 1 if any file differs.
package main

import (
	"fmt"
	"go/scanner"
	"go/token"
	"os"
	"path/filepath"
	"strings"
)

type tok struct {
	t   token.Token
	lit string
}

func tokens(path string) ([]tok, error) {
	src, err := os.ReadFile(path)
	if err != nil {
		return nil, err
	}
	fset := token.NewFileSet()
	f := fset.AddFile(path, fset.Base(), len(src))
	var s scanner.Scanner
	var nerr int
	s.Init(f, src, func(token.Position, string) { nerr++ }, 0) // mode 0: comments are skipped
	var out []tok
	for {
		_, t, lit := s.Scan()
		if t == token.EOF {
			break
		}
		if t == token.SEMICOLON && lit == "\n" {
			lit = ";" // automatic semicolons: line breaks may differ
		}
		out = append(out, tok{t, lit})
	}
	if nerr > 0 {
		return out, fmt.Errorf("%d scan errors", nerr)
	}
	return out, nil
}

func main() {
	a, b := os.Args[1], os.Args[2]
	files, _ := filepath.Glob(filepath.Join(a, "corpus", "*", "*_gen.go"))
	bad, n := 0, 0
	for _, fa := range files {
		rel, _ := filepath.Rel(a, fa)
		fb := filepath.Join(b, rel)
		ta, ea := tokens(fa)
		tb, eb := tokens(fb)
		n++
		if ea != nil || eb != nil {
			fmt.Printf("DIFF %s: cannot scan (%v / %v)\n", rel, ea, eb)
			bad++
			continue
		}
		i := 0
		for i < len(ta) && i < len(tb) && ta[i] == tb[i] {
			i++
		}
		if i < len(ta) || i < len(tb) {
			ctx := func(ts []tok) string {
				lo, hi := max(0, i-6), min(len(ts), i+6)
				var p []string
				for _, x := range ts[lo:hi] {
					if x.lit != "" {
						p = append(p, x.lit)
					} else {
						p = append(p, x.t.String())
					}
				}
				return strings.Join(p, " ")
			}
			fmt.Printf("DIFF %s: %d vs %d tokens, first difference at token %d: [%s] vs [%s]\n", rel, len(ta), len(tb), i, ctx(ta), ctx(tb))
			bad++
		}
	}
	fmt.Printf("compared %d generated files, %d differ\n", n, bad)
	if bad > 0 || n == 0 {
		os.Exit(1)
	}
}

//go:build verif && go1.25

package l2

import (
	"math/rand"

	"cffverif/progen"
)

// propOf maps a population name to the property whose violations it reports.
func propOf(p string) string {
	switch p {
	case "C03scale":
		return "C03"
	case "C10scale", "C10scale8":
		return "C10"
	case "C19scale":
		return "C19"
	case "C05scale":
		return "C05"
	case "C08scale":
		return "C08"
	case "C09scale":
		return "C09"
	case "C06scale":
		return "C06"
	}
	return p
}

func hasPredOrFB(p *progen.Prog) bool {
	if p.Flow == nil {
		return false
	}
	for _, t := range p.Flow.Tasks {
		if t.Pred != nil || t.Fallback {
			return true
		}
	}
	return false
}

func emitters(p *progen.Prog) int {
	if p.Flow != nil {
		return p.Flow.Emitters
	}
	return p.Par.Emitters
}

func emitSlice(p *progen.Prog) bool {
	if p.Flow != nil {
		return p.Flow.EmitSlice
	}
	return p.Par.EmitSlice
}

func eligible(prop string, p *progen.Prog) bool {
	switch prop {
	case "C02":
		return p.Flow != nil
	case "C08":
		return p.Par != nil && (p.Par.COEMode == progen.ArgConst || p.Par.COEMode == progen.ArgRuntime || p.Par.COEMode == progen.ArgConstFalse)
	case "C10":
		return p.Par != nil
	case "C11":
		return hasPredOrFB(p)
	case "C15":
		return len(p.Probes) > 0
	case "C18":
		return emitters(p) > 0
	case "C19":
		return emitters(p) > 0 && !emitSlice(p) // routing emitters cannot attribute state reports (they carry no context)
	case "C03scale", "C05scale", "C09scale", "C06scale":
		return p.Par != nil && len(p.Par.Colls) > 0
	case "C08scale":
		return p.Par != nil && len(p.Par.Colls) > 0 && (p.Par.COEMode == progen.ArgConst || p.Par.COEMode == progen.ArgRuntime)
	case "C10scale", "C10scale8", "C19scale":
		if p.Par == nil || (prop == "C19scale" && (p.Par.Emitters == 0 || p.Par.EmitSlice)) {
			return false
		}
		for _, c := range p.Par.Colls {
			if c.End != nil {
				return true
			}
		}
		return false
	}
	return true
}

var eligibleCache = map[string][]int{}

func eligibleProgs(prop string) []int {
	if v, ok := eligibleCache[prop]; ok {
		return v
	}
	var out []int
	for i, pr := range programs {
		if eligible(prop, pr.P) {
			out = append(out, i)
		}
	}
	if len(out) == 0 {
		for i := range programs {
			out = append(out, i)
		}
	}
	eligibleCache[prop] = out
	return out
}

type faultMix struct {
	err, panic_, goexit  int // per mille per user function
	predFalse, predPanic int
	elemFault            int
	cancelP              int // one in cancelP executions is cancelled
}

func mixFor(rng *rand.Rand, prop string) faultMix {
	m := faultMix{predFalse: 300, cancelP: 12}
	switch rng.Intn(4) {
	case 0:
	case 1:
		m.err = 80 + rng.Intn(200)
	case 2:
		m.err, m.panic_ = 60+rng.Intn(120), 60+rng.Intn(120)
	case 3:
		m.panic_ = 80 + rng.Intn(200)
	}
	m.elemFault = m.err + m.panic_
	if m.panic_ > 0 {
		m.predPanic = 100
	}
	switch prop {
	case "C02":
		m = faultMix{predFalse: 300, cancelP: 1 << 30}
	case "C04":
		m.panic_ = 120 + rng.Intn(300)
		m.err = rng.Intn(2) * (50 + rng.Intn(100))
		m.predPanic = 200
		m.elemFault = m.err + m.panic_
	case "C07":
		if m.err+m.panic_ == 0 {
			m.err = 100 + rng.Intn(200)
			m.elemFault = m.err
		}
	case "C08":
		if m.err+m.panic_ == 0 && rng.Intn(4) != 0 {
			m.err, m.panic_ = 100+rng.Intn(200), rng.Intn(150)
		}
		m.elemFault = m.err + m.panic_
		m.cancelP = 20
	case "C09":
		m.cancelP = 1
	case "C10":
		if rng.Intn(10) < 6 {
			m = faultMix{cancelP: 1 << 30}
		} else {
			m.cancelP = 1 << 30
		}
	case "C11":
		m.predFalse, m.predPanic = 300, 200
		if m.err+m.panic_ == 0 {
			m.err, m.panic_ = 150, 150
		}
	case "C03", "C05", "C06":
		if rng.Intn(3) == 0 {
			m.goexit = 60 + rng.Intn(150)
		}
	case "C18":
		if rng.Intn(4) == 0 {
			m.goexit = 40 + rng.Intn(100) // t.FailNow inside an instrumented task
		}
	case "C15":
		m.cancelP = 30
	case "C20mod":
		// outcomes must be schedule independent: at most one failing task, no cancellation
		m.cancelP = 1 << 30
		m.goexit = 0
	}
	return m
}

func uniqVals(rng *rand.Rand, n int) []uint64 {
	seen := map[uint64]bool{}
	out := make([]uint64, 0, n)
	for len(out) < n {
		v := rng.Uint64()>>8 | 1
		if !seen[v] {
			seen[v] = true
			out = append(out, v)
		}
	}
	return out
}

// Generate draws a run descriptor for a property's population.
func Generate(rng *rand.Rand, prop, tier string, gomaxprocs int) *Desc {
	d := &Desc{Engine: "l2", Prop: prop, GOMAXPROCS: gomaxprocs}
	progs := eligibleProgs(prop)
	nexec := 1
	if prop == "C03scale" || prop == "C05scale" || prop == "C08scale" || prop == "C10scale" || prop == "C10scale8" || prop == "C19scale" || prop == "C09scale" || prop == "C06scale" {
		return generateScale(rng, prop, tier, gomaxprocs, progs)
	}
	switch r := rng.Intn(10); {
	case r >= 9:
		nexec = 3
	case r >= 7:
		nexec = 2
	}
	total, maxLen := 0, 0
	nestable := prop != "C20" && prop != "C20mod"
	nested := 0
	var gen func(pi, depth int) ExecD
	gen = func(pi, depth int) ExecD {
		p := programs[pi].P
		mix := mixFor(rng, prop)
		x := ExecD{Prog: pi, TaskOut: map[int]int{}, PredOut: map[int]int{}, Len: map[int]int{}, PanicKind: rng.Intn(8), Colls: map[int]*CollD{}}
		x.Conc = []int{1, 1, 2, 2, 3, 4, 8, 0}[rng.Intn(8)] // 0: cff.Concurrency(0) means the default
		x.Bools = [2]bool{rng.Intn(2) == 0, rng.Intn(4) == 0}
		if prop == "C08" && rng.Intn(5) != 0 {
			x.Bools = [2]bool{true, false}
		}
		length := func(id int) {
			l := rng.Intn(3)
			if rng.Intn(8) == 0 {
				l = 3 + rng.Intn(6)
			}
			x.Len[id] = l
			if l > maxLen {
				maxLen = l
			}
		}
		outcome := func(hasErr bool) int {
			r := rng.Intn(1000)
			switch {
			case r < mix.panic_:
				return progen.Panic
			case r < mix.panic_+mix.err:
				if hasErr {
					return progen.Err
				}
				return progen.OK
			case r < mix.panic_+mix.err+mix.goexit:
				return progen.Goexit
			}
			return progen.OK
		}
		var taskIDs []int
		if f := p.Flow; f != nil {
			x.Params = uniqVals(rng, len(f.Params))
			for _, t := range f.Tasks {
				taskIDs = append(taskIDs, t.ID)
				length(t.ID)
				if o := outcome(t.Err); o != progen.OK {
					x.TaskOut[t.ID] = o
				}
				if t.Pred != nil {
					length(1000 + t.ID)
					r := rng.Intn(1000)
					switch {
					case r < mix.predPanic:
						x.PredOut[t.ID] = progen.PredPanic
					case r < mix.predPanic+mix.predFalse:
						x.PredOut[t.ID] = progen.PredFalse
					}
					total++
				}
				total++
			}
			total += len(p.Probes)
		} else {
			pp := p.Par
			for _, t := range pp.Tasks {
				taskIDs = append(taskIDs, t.ID)
				length(t.ID)
				if o := outcome(t.Err); o != progen.OK {
					x.TaskOut[t.ID] = o
				}
				total++
			}
			for _, c := range pp.Colls {
				cd := &CollD{Fail: map[int]int{}}
				if rng.Intn(10) == 0 {
					cd.Nil = true
				} else {
					n := rng.Intn(7)
					if tier == "thorough" && rng.Intn(20) == 0 {
						n = 7 + rng.Intn(40)
					}
					if rng.Intn(120) == 0 {
						// long enough for whatever the generated submission loop does every so many
						// elements, and for a cancellation or failure to land while it is still submitting
						n = 1030 + rng.Intn(1500)
					}
					cd.Vals = uniqVals(rng, n)
					cd.Keys = uniqVals(rng, n)
					for k := range cd.Keys {
						cd.Keys[k] >>= 4 // keep int64 conversion positive
					}
					for k := 0; k < n; k++ {
						r := rng.Intn(1000)
						if r < mix.elemFault/2 {
							if c.Err && rng.Intn(2) == 0 {
								cd.Fail[k] = progen.Err
							} else {
								cd.Fail[k] = progen.Panic
							}
						}
					}
					total += n
				}
				if c.End != nil {
					length(2000 + c.ID)
					if o := outcome(c.End.Err); o == progen.Err || o == progen.Panic {
						cd.End = o
					}
					total++
				}
				length(c.ID)
				x.Colls[c.ID] = cd
			}
			total += len(p.Probes)
		}
		if prop == "C20mod" && len(x.TaskOut) > 1 {
			keep := -1
			for id := range x.TaskOut {
				if keep < 0 || id < keep {
					keep = id
				}
			}
			x.TaskOut = map[int]int{keep: x.TaskOut[keep]}
		}
		if rng.Intn(mix.cancelP) == 0 {
			x.CancelMode = 1 + rng.Intn(6)
			if x.CancelMode == CancelInPred {
				x.CancelMode = CancelInTask
				if f := p.Flow; f != nil {
					for _, t := range f.Tasks {
						if t.Pred != nil && rng.Intn(2) == 0 {
							x.CancelMode, x.CancelTask = CancelInPred, t.ID
							break
						}
					}
				}
			}
			if x.CancelMode == CancelInElem {
				x.CancelMode = CancelExternal
				if p.Par != nil {
					for _, c := range p.Par.Colls {
						if cd := x.Colls[c.ID]; cd != nil && !cd.Nil && len(cd.Vals) > 0 {
							x.CancelMode, x.CancelTask, x.CancelOrd = CancelInElem, c.ID, rng.Intn(len(cd.Vals))
							break
						}
					}
				}
			}
			if x.CancelMode == CancelInTask {
				if len(taskIDs) == 0 {
					x.CancelMode = CancelExternal
				} else {
					x.CancelTask = taskIDs[rng.Intn(len(taskIDs))]
				}
			}
			x.DelaySteps = rng.Intn(20 + 8*total)
			if x.CancelMode == CancelExternal || x.CancelMode == CancelDeadline {
				x.Stuck = map[int]bool{}
				for _, id := range taskIDs {
					if rng.Intn(6) == 0 {
						x.Stuck[id] = true
					}
				}
				if f := p.Flow; f != nil {
					for _, t := range f.Tasks {
						if t.Pred != nil && rng.Intn(6) == 0 {
							x.Stuck[1000+t.ID] = true // a predicate that is still running when the context ends
						}
					}
				}
			}
		}
		if k := rng.Intn(9); k < 2 {
			x.CtxKind = 1 + k
		}
		if x.CancelMode == CancelExternal && rng.Intn(4) == 0 {
			x.CtxKind, x.AtErr = 1, 1+rng.Intn(3)
			x.Stuck = nil // nothing may wait for a cancellation that only comes when the caller looks again
		}
		x.SlowEmit = emitters(p) > 0 && rng.Intn(3) == 0
		if x.SlowEmit && x.CancelMode == CancelExternal && x.AtErr == 0 && rng.Intn(3) == 0 {
			x.AtEmit, x.Stuck = true, nil
			// half of the time the outcome that is being reported when the context ends is a
			// failure, and one whose error wraps the very error the context then ends with
			// (a task that gave up on a cancellation of its own)
			if len(x.TaskOut) == 0 && rng.Intn(2) == 0 {
				var able []int
				if f := p.Flow; f != nil {
					for _, t := range f.Tasks {
						if t.Err && t.Pred == nil && !t.Fallback {
							able = append(able, t.ID)
						}
					}
				} else {
					for _, t := range p.Par.Tasks {
						if t.Err {
							able = append(able, t.ID)
						}
					}
				}
				if len(able) > 0 {
					id := able[rng.Intn(len(able))]
					x.TaskOut[id] = progen.Err
					x.PanicKind = ((2-id)%4 + 4) % 4 // fnErr: (PanicKind + id) % 4 == 2 wraps context.Canceled
				}
			}
		}
		if prop == "C12" {
			x.ShareErr = emitters(p) > 0 && rng.Intn(3) == 0
		}
		x.SharedErr = rng.Intn(5) == 0
		if prop == "C11" && p.Flow != nil && rng.Intn(4) == 0 {
			setHold(rng, p, &x)
		}
		if prop == "C03" && p.Par != nil && rng.Intn(3) == 0 && x.CancelMode == CancelNone {
			setBarrier(rng, p, &x, gomaxprocs)
		}
		if (prop == "C03" || prop == "C20mod") && p.Flow != nil && rng.Intn(3) == 0 && x.CancelMode == CancelNone {
			setBarrierFlow(rng, p, &x, gomaxprocs)
		}
		total += 24
		// nested directive: the body of one task runs another program
		if nestable && !x.Barrier && x.HoldTask == 0 && len(taskIDs) > 0 && depth < 2 && nested < 3 && rng.Intn(5) == 0 {
			nested++
			id := taskIDs[rng.Intn(len(taskIDs))]
			ci := progs[rng.Intn(len(progs))]
			if rng.Intn(4) == 0 {
				ci = pi // the same directive, re-entered from one of its own tasks
			}
			ch := gen(ci, depth+1)
			if (prop == "C03" || prop == "C05" || prop == "C06") && rng.Intn(3) == 0 {
				// the nested directive loses a worker to runtime.Goexit; the enclosing task passes
				// on what it returns ("job exited unexpectedly", wrapped)
				var ids []int
				if cp := programs[ci].P; cp.Flow != nil {
					for _, t := range cp.Flow.Tasks {
						if t.Pred == nil {
							ids = append(ids, t.ID)
						}
					}
				} else {
					for _, t := range cp.Par.Tasks {
						ids = append(ids, t.ID)
					}
				}
				if len(ids) > 0 && !ch.Barrier && ch.HoldTask == 0 {
					ch.TaskOut[ids[rng.Intn(len(ids))]] = progen.Goexit
				}
			}
			x.Nest = map[int]*ExecD{id: &ch}
		}
		return x
	}
	for e := 0; e < nexec; e++ {
		pi := progs[rng.Intn(len(progs))]
		if e > 0 && rng.Intn(2) == 0 {
			pi = d.Execs[0].Prog // the same directive from several goroutines
		}
		x := gen(pi, 0)
		if e > 0 && rng.Intn(3) == 0 {
			x.After = e // one after the other instead of side by side
		}
		d.Execs = append(d.Execs, x)
	}
	d.Policy = pickPolicy(rng, prop)
	d.Budget = 40 * (total + 10) * (maxLen + 10)
	d.FairAfter = d.Budget / 2
	return d
}

// setBarrier turns the execution into a capacity test: only possible when
// enough independent, non-failing user functions exist.
func setBarrier(rng *rand.Rand, p *progen.Prog, x *ExecD, gmp int) {
	pp := p.Par
	// no failures except Goexit on parallel tasks
	bodies := 0
	for _, t := range pp.Tasks {
		if x.TaskOut[t.ID] != progen.Goexit {
			delete(x.TaskOut, t.ID)
			bodies++
		}
	}
	for _, c := range pp.Colls {
		cd := x.Colls[c.ID]
		cd.Fail = map[int]int{}
		cd.End = progen.OK
		if c.End != nil {
			return // End hooks wait for all elements: they would never meet them at the barrier
		}
		if !cd.Nil {
			bodies += len(cd.Vals)
		}
	}
	limit := 0
	switch pp.ConcMode {
	case progen.ArgConst:
		limit = pp.ConcConst
	case progen.ArgRuntime:
		if bodies == 0 {
			return
		}
		x.Conc = 1 + rng.Intn(min(bodies, 8))
		limit = x.Conc
	default:
		limit = max(gmp, 4)
	}
	if pp.COEMode == progen.ArgAbsent || pp.COEMode == progen.ArgConstFalse || (pp.COEMode == progen.ArgRuntime && !(x.Bools[0] && !x.Bools[1])) {
		// fail-fast: a Goexit'ed task stops the scheduler, the barrier could legitimately starve
		for _, t := range pp.Tasks {
			delete(x.TaskOut, t.ID)
		}
		bodies = len(pp.Tasks)
		for _, c := range pp.Colls {
			if cd := x.Colls[c.ID]; !cd.Nil {
				bodies += len(cd.Vals)
			}
		}
	}
	if bodies >= limit && limit > 0 {
		x.Barrier = true
	}
}

// setBarrierFlow: the tasks of a flow that need nothing from other tasks are
// runnable at the same time; as many of them as the limit allows must be able
// to run concurrently (they meet at a barrier). Fault-free execution.
func setBarrierFlow(rng *rand.Rand, p *progen.Prog, x *ExecD, gmp int) {
	f := p.Flow
	prov := map[int]bool{}
	for i := range f.Tasks {
		for _, o := range f.Tasks[i].Out {
			prov[o] = true
		}
	}
	set := map[int]bool{}
	if rng.Intn(2) == 0 {
		// the tasks that are runnable from the start
		for _, t := range f.Tasks {
			if t.Pred != nil {
				continue
			}
			free := true
			for _, in := range t.In {
				free = free && !prov[in]
			}
			if free {
				set[t.ID] = true
			}
		}
	} else {
		// any set of mutually independent tasks, at whatever depth of the graph: whoever
		// arrives waits (holding its worker) while the others' providers still run
		up := f.Upstream()
		var cand []int
		for _, i := range rng.Perm(len(f.Tasks)) {
			if f.Tasks[i].Pred == nil && len(cand) < 14 {
				cand = append(cand, f.Tasks[i].ID)
			}
		}
		// a largest one (the widest the graph really is, which need not be any one "level" of it)
		best, bestN := 0, 0
		for m := 1; m < 1<<len(cand); m++ {
			n, ok := 0, true
			for i := 0; i < len(cand) && ok; i++ {
				if m>>i&1 == 0 {
					continue
				}
				n++
				for j := 0; j < i && ok; j++ {
					if m>>j&1 == 1 && (up[cand[i]][cand[j]] || up[cand[j]][cand[i]]) {
						ok = false
					}
				}
			}
			if ok && n > bestN {
				best, bestN = m, n
			}
		}
		for i, id := range cand {
			if best>>i&1 == 1 {
				set[id] = true
			}
		}
		if f.ConcMode == progen.ArgRuntime && len(set) >= 2 {
			x.Conc = min(len(set), 8) // the limit is not what holds the parties back
		}
	}
	limit := 0
	switch f.ConcMode {
	case progen.ArgConst:
		limit = f.ConcConst
	case progen.ArgRuntime:
		limit = x.Conc
	}
	if limit <= 0 {
		limit = max(gmp, 4)
	}
	n := min(limit, len(set))
	if n < 2 {
		return
	}
	x.TaskOut = map[int]int{}
	for id := range x.PredOut {
		if x.PredOut[id] == progen.PredPanic {
			x.PredOut[id] = progen.PredTrue
		}
	}
	x.Stuck = nil
	x.Barrier, x.BarrierN, x.BarrierSet = true, n, set
}

// setHold prepares the "predicate must not wait for the task's other inputs"
// population: a provider that only the task needs is held until the
// predicate has been evaluated.
func setHold(rng *rand.Rand, p *progen.Prog, x *ExecD) {
	f := p.Flow
	if f.ConcMode == progen.ArgConst && f.ConcConst < 2 {
		return
	}
	if x.Conc < 2 {
		x.Conc = 2
	}
	up := f.Upstream()
	prov := map[int]int{}
	for i := range f.Tasks {
		for _, o := range f.Tasks[i].Out {
			prov[o] = f.Tasks[i].ID
		}
	}
	for _, t := range f.Tasks {
		if t.Pred == nil {
			continue
		}
		pu := predUp(f, up, t.ID)
		for _, in := range t.In {
			u, ok := prov[in]
			if !ok || pu[u] {
				continue
			}
			// fault-free run so that everything is evaluated
			x.TaskOut = map[int]int{}
			for id := range x.PredOut {
				if x.PredOut[id] == progen.PredPanic {
					x.PredOut[id] = progen.PredTrue
				}
			}
			// predicates upstream of u or of the watched predicate must be true
			for id := range x.PredOut {
				if up[u][id] || pu[id] || id == u {
					x.PredOut[id] = progen.PredTrue
				}
			}
			x.CancelMode = CancelNone
			x.Stuck = nil
			x.HoldTask, x.WatchPred = u+1, t.ID+1
			return
		}
	}
}

func pickPolicy(rng *rand.Rand, prop string) string {
	names := []string{"uniform", "uniform", "pct", "starve-loop", "starve-result", "caller-first", "caller-last", "slow-worker", "worker-first", "submit-all-first"}
	switch prop {
	case "C15":
		names = append(names, "caller-last", "caller-last", "worker-first", "worker-first")
	case "C06":
		names = append(names, "starve-result", "worker-first")
	case "C19", "C18":
		names = append(names, "tick-greedy")
	}
	return names[rng.Intn(len(names))]
}

// generateScale: one Parallel over collections of 10^3..10^5 elements with a
// small limit; the goroutine and in-flight bounds must not depend on the size.
func generateScale(rng *rand.Rand, prop, tier string, gmp int, progs []int) *Desc {
	d := &Desc{Engine: "l2", Prop: prop, GOMAXPROCS: gmp}
	pi := progs[rng.Intn(len(progs))]
	p := programs[pi].P
	if p.Par == nil {
		// the corpus holds no program of the shape this population needs: ordinary runs instead
		return Generate(rng, propOf(prop), tier, gmp)
	}
	x := ExecD{Prog: pi, TaskOut: map[int]int{}, PredOut: map[int]int{}, Len: map[int]int{}, Colls: map[int]*CollD{}}
	x.Conc = 1 + rng.Intn(4)
	x.Bools = [2]bool{rng.Intn(2) == 0, false}
	total := 0
	large := false
	faultAt0 := 0
	manyFail := false
	if prop == "C08scale" {
		x.Bools = [2]bool{true, false} // the run-time ContinueOnError expression is true
	}
	for _, c := range p.Par.Colls {
		n := 1000 + rng.Intn(3000)
		if tier == "thorough" {
			n = 10000 + rng.Intn(90000)
		}
		// an End function over a collection whose size passes 2^8 or 2^16: the
		// count of element calls it waits for must not be held in anything narrower
		switch {
		case prop == "C10scale8":
			n = 257 + rng.Intn(600)
		case (prop == "C10scale" || prop == "C19scale") && c.End != nil && !large:
			n, large = 80000+rng.Intn(5000), true
			if prop == "C19scale" && rng.Intn(3) == 0 {
				// the first element call cancels the context while the rest is still being submitted
				x.CancelMode, x.CancelTask, x.CancelOrd = CancelInElem, c.ID, 0
			}
		case prop == "C10scale" || prop == "C19scale":
			n = rng.Intn(300)
		case prop == "C08scale" && !large:
			// thousands of failures in one ContinueOnError directive: every one of them is to be reported
			n, large, manyFail = 1500+rng.Intn(2500), true, true
		case prop == "C08scale":
			n = rng.Intn(40)
		case prop == "C09scale" || prop == "C06scale":
			// collections past 2^10 / 2^12 elements whose context ends early: before the call, from
			// inside one of the first element calls, or from outside while elements are being run
			n = 1024 + rng.Intn(1200)
			if rng.Intn(2) == 0 {
				n = 4096 + rng.Intn(5000)
			}
			if !large {
				large = true
				switch rng.Intn(4) {
				case 0:
					x.CancelMode = CancelBefore
				case 1:
					x.CancelMode, x.DelaySteps = CancelExternal, rng.Intn(4*n)
				default:
					x.CancelMode, x.CancelTask, x.CancelOrd = CancelInElem, c.ID, rng.Intn(40)
				}
			}
		case prop == "C05scale" && !large:
			// a fault right at the beginning of a collection of more than 2^16 elements:
			// everything behind it is submitted to a scheduler that has stopped, or is skipped
			n, large = 70000+rng.Intn(4000), true
			switch rng.Intn(3) {
			case 0:
				x.CancelMode, x.CancelTask, x.CancelOrd = CancelInElem, c.ID, 0
			default:
				if c.Err && rng.Intn(2) == 0 {
					faultAt0 = progen.Err
				} else {
					faultAt0 = progen.Panic
				}
			}
		}
		cd := &CollD{Fail: map[int]int{}}
		if faultAt0 != 0 {
			cd.Fail[0], faultAt0 = faultAt0, 0
		}
		if manyFail {
			manyFail = false
			for k := 0; k < n; k++ {
				switch r := rng.Intn(100); {
				case r < 3:
					cd.Fail[k] = progen.Panic
				case r < 70 && c.Err:
					cd.Fail[k] = progen.Err
				case r < 20:
					cd.Fail[k] = progen.Panic
				}
			}
		}
		cd.Vals = make([]uint64, n)
		cd.Keys = make([]uint64, n)
		for k := range cd.Vals {
			cd.Vals[k] = uint64(k)*2654435761 + 1
			cd.Keys[k] = uint64(k) + 1
		}
		x.Colls[c.ID] = cd
		total += n
	}
	total += len(p.Par.Tasks) + len(p.Probes) + 40
	d.Execs = []ExecD{x}
	d.Policy = []string{"uniform", "starve-result", "worker-first", "caller-first"}[rng.Intn(4)]
	if prop != "C03scale" && rng.Intn(4) != 0 {
		d.Policy = "submit-all-first" // everything is submitted before much of it has run
	}
	d.Budget = 60 * total
	d.FairAfter = d.Budget / 2
	return d
}

//go:build verif && go1.25

// Package l2 runs freshly generated cff code (Flow / Parallel directives
// compiled by the cff tool built from /repo) under the deterministic
// simulator, and judges each execution against the sequential reference
// model of the abstract program.
package l2

import (
	"context"
	"encoding/json"
	"errors"
	"fmt"
	"runtime"
	"sort"
	"strings"
	"sync/atomic"
	"testing"
	"time"

	"cffverif/engine"
	"cffverif/progen"
	"cffverif/rt"

	"go.uber.org/cff"
)

type program struct {
	P  *progen.Prog
	Fn rt.ProgFunc
}

var programs []program

func register(js string, fn rt.ProgFunc) {
	var p progen.Prog
	if err := json.Unmarshal([]byte(js), &p); err != nil {
		panic(err)
	}
	programs = append(programs, program{&p, fn})
}

// Cancellation modes.
const (
	CancelNone = iota
	CancelBefore
	CancelDeadline
	CancelExternal
	CancelInTask // the task CancelTask cancels from inside its body
	CancelInElem // the CancelOrd-th started element call of collection CancelTask cancels from inside its body
	CancelInPred // the predicate of task CancelTask cancels from inside its body (and then returns what the plan says)
)

// CollD fixes one collection of a Parallel execution.
type CollD struct {
	Nil  bool        `json:"nil,omitempty"`
	Vals []uint64    `json:"vals,omitempty"` // slice elements / map values
	Keys []uint64    `json:"keys,omitempty"` // map keys
	Fail map[int]int `json:"fail,omitempty"` // ordinal of started element call -> outcome
	End  int         `json:"end,omitempty"`  // outcome of the End function
}

// ExecD is one execution of one program by one caller goroutine.
type ExecD struct {
	Prog       int            `json:"prog"`
	Params     []uint64       `json:"params,omitempty"`
	TaskOut    map[int]int    `json:"task_out,omitempty"`
	PredOut    map[int]int    `json:"pred_out,omitempty"`
	PanicKind  int            `json:"panic_kind,omitempty"`
	Len        map[int]int    `json:"len,omitempty"`
	Conc       int            `json:"conc"`
	Bools      [2]bool        `json:"bools"`
	Colls      map[int]*CollD `json:"colls,omitempty"`
	CancelMode int            `json:"cancel_mode,omitempty"`
	CancelTask int            `json:"cancel_task,omitempty"`
	DelaySteps int            `json:"delay_steps,omitempty"`
	Stuck      map[int]bool   `json:"stuck,omitempty"`
	Barrier    bool           `json:"barrier,omitempty"`
	// BarrierN / BarrierSet: a barrier of BarrierN parties (0: the concurrency
	// limit) among the task ids of BarrierSet (nil: every non-failing function).
	BarrierN   int          `json:"barrier_n,omitempty"`
	BarrierSet map[int]bool `json:"barrier_set,omitempty"`
	HoldTask   int          `json:"hold_task,omitempty"` // C11: task id+1 held until predicate WatchPred was evaluated
	WatchPred  int          `json:"watch_pred,omitempty"`
	CancelOrd  int          `json:"cancel_ord,omitempty"`
	// CtxKind 2: a context cancelled (or timing out) with a cause (WithCancelCause / WithTimeoutCause).
	// CtxKind 1: the directive gets a user-defined context.Context type
	// (engine.UserCtx) instead of a standard cancel context.
	CtxKind int `json:"ctx_kind,omitempty"`
	// ShareErr: the first emitter passes the directive's error to another goroutine, which formats
	// it concurrently with the caller.
	ShareErr bool `json:"share_err,omitempty"`
	// AtErr k > 0 (CtxKind 1, CancelExternal): the outside party ends the context while the
	// directive's caller is parked inside its k-th call of ctx.Err(), instead of after DelaySteps.
	AtErr int `json:"at_err,omitempty"`
	// AtEmit (SlowEmit, CancelExternal): the outside party ends the context while the caller is
	// held inside the slow emitter callback that reports the directive's outcome.
	AtEmit bool `json:"at_emit,omitempty"`
	// After k>0: this (top-level) execution is only called once execution k-1
	// has returned: repeated, sequential use of directives in one process.
	After int `json:"after,omitempty"`
	// SlowEmit: the scheduler-state emitter holds its caller for a step per report.
	SlowEmit bool `json:"slow_emit,omitempty"`
	// SharedErr: all failing user functions return one and the same error value.
	SharedErr bool `json:"shared_err,omitempty"`
	// Nest: the body of task id runs another directive (on the worker
	// goroutine, with a context derived from the one the task received)
	// before it ends.
	Nest map[int]*ExecD `json:"nest,omitempty"`
}

// Desc is the complete input of one simulated run.
type Desc struct {
	Engine     string   `json:"engine"`
	Prop       string   `json:"prop"`
	Seed       int64    `json:"seed"`
	Run        int      `json:"run"`
	GOMAXPROCS int      `json:"gomaxprocs"`
	Policy     string   `json:"policy"`
	Budget     int      `json:"budget"`
	FairAfter  int      `json:"fair_after"`
	Execs      []ExecD  `json:"execs"`
	Choices    []uint32 `json:"choices"`
}

// Event kinds.
const (
	EvTaskStart = iota + 1
	EvTaskEnd
	EvPredStart
	EvPredEnd
	EvElemStart
	EvElemEnd
	EvEndStart
	EvEndEnd
	EvProbe
	EvCancel
	EvRet
	EvCall    // a nested directive is about to be called
	EvCleanup // the harness releases the context's resources after the directive returned (cancels derived contexts)
)

var evNames = [...]string{"", "task-start", "task-end", "pred-start", "pred-end", "elem-start", "elem-end", "endhook-start", "endhook-end", "arg-probe", "cancel", "returned", "nested-call", "ctx-cleanup"}

type Ev struct {
	Seq  int
	Kind int
	ID   int
	Ord  int // element calls: ordinal of the call within its collection
	Args []uint64
	A    int64
	B    uint64
	Slot int
}

func (e Ev) String() string {
	s := fmt.Sprintf("#%d %s id=%d", e.Seq, evNames[e.Kind], e.ID)
	switch e.Kind {
	case EvTaskStart, EvPredStart:
		s += fmt.Sprintf(" args=%x", e.Args)
	case EvElemStart, EvElemEnd:
		s += fmt.Sprintf(" ord=%d a=%d b=%x", e.Ord, e.A, e.B)
	}
	return s + fmt.Sprintf(" (g%d)", e.Slot)
}

// Emitter event kinds.
const (
	EmFlowSuccess = iota + 1
	EmFlowError
	EmFlowDone
	EmTaskSuccess
	EmTaskError
	EmTaskErrorRecovered
	EmTaskSkipped
	EmTaskPanic
	EmTaskPanicRecovered
	EmTaskDone
)

var emNames = [...]string{"", "Success", "Error", "Done", "TaskSuccess", "TaskError", "TaskErrorRecovered", "TaskSkipped", "TaskPanic", "TaskPanicRecovered", "TaskDone"}

type EmEv struct {
	Kind int
	Name string // task name ("" for directive-level events)
	Err  error
	PV   any
	Seq  int // harness sequence number current when the event was emitted
}

func (e EmEv) String() string {
	s := emNames[e.Kind]
	if e.Name != "" {
		s += "(" + e.Name + ")"
	}
	if e.Err != nil {
		s += fmt.Sprintf(" err=%v", e.Err)
	}
	if e.PV != nil {
		s += fmt.Sprintf(" panic=%v", e.PV)
	}
	return s
}

type ctxKey struct{}

// userErr is the identity-carrying error a failing user function returns.
type userErr struct {
	exec, kind, id, ord int
	// wraps: the function gave up on a private timeout / cancellation of its
	// own and says so (errors.Is(err, context.DeadlineExceeded) etc.), while
	// the directive's context is perfectly alive
	wraps error
}

func (e *userErr) Unwrap() error { return e.wraps }

func (e *userErr) Error() string {
	if e.kind < 0 {
		return "not found (sentinel shared by every failing function of the execution)"
	}
	return fmt.Sprintf("user function failed (exec %d, %s %d/%d)", e.exec, [...]string{"task", "elem", "end"}[e.kind], e.id, e.ord)
}

// panicStruct is one of the panic value kinds.
type panicStruct struct{ Exec, Kind, ID, Ord int }

// panicUncomparable is a struct panic value that cannot be compared with ==.
type panicUncomparable struct {
	Why    string
	Fields map[string]int
}

// runtimePanic marks executions whose panic is a genuine runtime.Error.
type runtimePanic struct{}

type panicErr struct{ exec, kind, id, ord int }

func (e *panicErr) Error() string {
	return fmt.Sprintf("panic-error %d/%d/%d/%d", e.exec, e.kind, e.id, e.ord)
}

type initRec struct {
	name string
	line int
}

type memoEnt struct {
	k [4]int
	e error
	v any
}

// execRun is the per-execution harness state; touched only from //go:norace
// methods.
type execRun struct {
	idx      int
	parent   *execRun
	children map[int]*execRun // task id -> nested execution (read-only while running)
	started  bool
	callSeq  int
	d        *ExecD
	prog     *progen.Prog
	fn       rt.ProgFunc
	r        *runner
	token    *int
	ctx      context.Context
	cancel   context.CancelFunc
	ctxPub   atomic.Bool

	events  []Ev
	nev     int
	em      [3][]EmEv
	nem     [3]int
	states  []cff.SchedulerState
	nstates int
	// statesAfterRet: reports received after the directive had returned nil
	statesAfterRet int
	badStates      [8]cff.SchedulerState
	nbad           int
	inits          [3][64]initRec // TaskInit calls per emitter (name, source line)
	ninits         [3]int

	inflight, maxInfl int
	ctxBad            int
	elemOrd           [64]int         // started element calls per collection
	uc                *engine.UserCtx // CtxKind 1: the user-defined context of this execution
	postWaitSet       bool
	postWaitErr       error
	nextEm            int
	nextProbe         int
	sharedErr         *userErr
	propErr           [64]error // per task: the annotated error of the directive nested in it, if that failed
	lastErr           error     // what the directive returned (set when the call returns, before the harness's bookkeeping step)
	memo              []memoEnt // identity-carrying errors and panic values handed out (no maps: the race detector sees map internals)
	callerSlot        int

	returned            bool
	res                 []uint64
	err                 error
	ctxErrAtRet         error
	propagated          any // panic that escaped the directive
	predSeen            [64]bool
	identSeen, identBad int

	errFired, panicFired, goexitFired, cancelFired, predFalse, predPanic, fbUsed int
}

type runner struct {
	sim    *engine.Sim
	d      *Desc
	execs  []*execRun
	shared cff.Emitter // a three-member stack used by every execution that asks for it
	slice  []cff.Emitter
}

//go:norace
func (x *execRun) log(kind, id, ord int, args []uint64, a int64, b uint64) int {
	seq := x.r.sim.NextSeq()
	if x.nev < len(x.events) {
		x.events[x.nev] = Ev{Seq: seq, Kind: kind, ID: id, Ord: ord, Args: args, A: a, B: b, Slot: x.r.sim.SlotIndex()}
		x.nev++
	}
	return seq
}

//go:norace
func (x *execRun) enter(ctx context.Context) {
	x.inflight++
	if x.inflight > x.maxInfl {
		x.maxInfl = x.inflight
	}
	if ctx != nil {
		if ctx.Value(ctxKey{}) != any(x.token) || ctx.Done() != x.ctx.Done() {
			x.ctxBad++
		}
	}
}

//go:norace
func (x *execRun) leave() { x.inflight-- }

//go:norace
func (x *execRun) nextOrd(coll int) int {
	o := x.elemOrd[coll&63]
	x.elemOrd[coll&63] = o + 1
	return o
}

//go:norace
func (x *execRun) errOf(kind, id, ord int) error {
	k := [4]int{0, kind, id, ord}
	for i := range x.memo {
		if x.memo[i].k == k {
			return x.memo[i].e
		}
	}
	if x.d.SharedErr {
		// every failing function of this execution returns the same sentinel value
		return x.sharedErr
	}
	e := &userErr{exec: x.idx, kind: kind, id: id, ord: ord}
	switch (x.d.PanicKind + id + 2*ord) % 4 {
	case 1:
		e.wraps = context.DeadlineExceeded
	case 2:
		e.wraps = context.Canceled
	}
	if len(x.memo) < cap(x.memo) {
		x.memo = append(x.memo, memoEnt{k: k, e: e})
	}
	return e
}

// panicVal returns the (memoised) value a user function panics with.
//
//go:norace
func (x *execRun) panicVal(kind, id, ord int) any {
	k := [4]int{1, kind, id, ord}
	for i := range x.memo {
		if x.memo[i].k == k {
			return x.memo[i].v
		}
	}
	var v any
	switch (x.d.PanicKind + id + ord) % 8 {
	case 7:
		// the error of another directive, re-thrown: a value that already is a *cff.PanicError
		v = &cff.PanicError{Value: fmt.Sprintf("inner panic exec=%d kind=%d id=%d ord=%d", x.idx, kind, id, ord), Stacktrace: []byte("inner")}
	case 5:
		v = []int{x.idx, kind, id, ord} // a value of an uncomparable type
	case 6:
		v = panicUncomparable{Why: "validation", Fields: map[string]int{"exec": x.idx, "kind": kind, "id": id, "ord": ord}}
	case 4:
		v = runtimePanic{} // marker: the body provokes a real runtime error (write to a nil map)
	case 0:
		v = fmt.Sprintf("boom exec=%d kind=%d id=%d ord=%d", x.idx, kind, id, ord)
	case 1:
		v = &panicErr{x.idx, kind, id, ord}
	case 2:
		v = panicStruct{x.idx, kind, id, ord}
	case 3:
		v = 1000000*(x.idx+1) + 10000*kind + 100*id + ord
	}
	if len(x.memo) < cap(x.memo) {
		x.memo = append(x.memo, memoEnt{k: k, v: v})
	}
	return v
}

//go:norace
func (x *execRun) count(p *int) { *p++ }

//go:norace
func (x *execRun) noteIdent(k int, ok bool) {
	x.identSeen++
	if !ok {
		x.identBad++
	}
}

//go:norace
func (x *execRun) setCtx(ctx context.Context, cancel context.CancelFunc) {
	x.ctx, x.cancel = ctx, cancel
}

//go:norace
func (x *execRun) getCancel() context.CancelFunc { return x.cancel }

//go:norace
func (x *execRun) getCtx() context.Context { return x.ctx }

//go:norace
func (x *execRun) setStarted(seq int) { x.started, x.callSeq = true, seq }

//go:norace
func (x *execRun) setReturned(res []uint64, err, ctxErr error, propagated any) {
	x.res, x.err, x.ctxErrAtRet, x.propagated, x.returned = res, err, ctxErr, propagated, true
}

//go:norace
func (x *execRun) isReturned() bool { return x.returned }

//go:norace
func (x *execRun) isStarted() bool { return x.started }

//go:norace
func (x *execRun) setLastErr(e error) { x.lastErr = e }

// ctxErrQuiet is the harness's own look at the directive's context: no scheduling point.
func (x *execRun) ctxErrQuiet(ctx context.Context) error {
	if x.uc != nil {
		return x.uc.ErrQuiet()
	}
	return ctx.Err()
}

//go:norace
func (x *execRun) notePostWait(e error) {
	if !x.postWaitSet {
		x.postWaitSet, x.postWaitErr = true, e
	}
}

//go:norace
func (x *execRun) postWait() (bool, error) { return x.postWaitSet, x.postWaitErr }

//go:norace
func (x *execRun) setCallerSlot(i int) { x.callerSlot = i }

//go:norace
func (x *execRun) markPred(id int) {
	if id < len(x.predSeen) {
		x.predSeen[id] = true
	}
}

func flagReturned(i int) int { return i }
func flagCtxReady(i int) int { return 16 + i }
func flagPredSeen(i int) int { return 32 + i }
func ctrBarrier(i int) int   { return 16 + i }
func ctrErrCalls(i int) int  { return 32 + i } // Err() calls on a user-defined context by the directive's caller
func ctrPostWait(i int) int  { return 48 + i } // parks of the directive's caller inside a slow outcome emitter

// hh implements rt.H for one execution.
type hh struct{ x *execRun }

func (h *hh) body(kind, id, ord int, ctx context.Context, startKind, endKind int, args []uint64, a int64, b uint64, length, outcome int, stuck bool) (err error) {
	x := h.x
	sim := x.r.sim
	sim.Yield(engine.HsBody)
	if sim.Aborted() {
		return nil
	}
	x.log(startKind, id, ord, args, a, b)
	x.enter(ctx)
	for k := 0; k < length; k++ {
		sim.Yield(engine.HsStep)
	}
	if x.d.Barrier && outcome == progen.OK && (x.d.BarrierSet == nil || (kind == 0 && x.d.BarrierSet[id])) {
		sim.AddCounter(ctrBarrier(x.idx), 1)
		sim.Hold(engine.HoldCounter, ctrBarrier(x.idx), x.barrierSize())
	}
	if kind == 0 && x.d.HoldTask == id+1 {
		sim.Hold(engine.HoldFlag, flagPredSeen(x.idx), 0)
	}
	if kind == 0 {
		if ch := x.children[id]; ch != nil {
			pctx := ctx
			if pctx == nil {
				pctx = x.getCtx()
			}
			x.r.runExec(ch, pctx)
			if sim.Aborted() {
				return nil
			}
			if cerr := ch.retErr(); cerr != nil && outcome == progen.Err {
				// the task fails because the directive it ran failed, and says so: it
				// returns that error, annotated (a value of its own that wraps it)
				x.setPropErr(id, &wrapErr{exec: x.idx, id: id, inner: cerr})
			}
		}
	}
	if stuck {
		sim.Hold(engine.HoldFlag, flagReturned(x.idx), 0)
	}
	if sim.Aborted() {
		return nil
	}
	if kind == 0 && x.d.CancelMode == CancelInTask && x.d.CancelTask == id {
		x.log(EvCancel, id, 0, nil, 0, 0)
		x.count(&x.cancelFired)
		x.getCancel()()
		sim.Yield(engine.HsAfter)
	}
	x.log(endKind, id, ord, nil, a, b)
	x.leave()
	switch outcome {
	case progen.Err:
		x.count(&x.errFired)
		if kind == 0 {
			return x.taskErr(id)
		}
		return x.errOf(kind, id, ord)
	case progen.Panic:
		x.count(&x.panicFired)
		throw(x.panicVal(kind, id, ord))
	case progen.Goexit:
		x.count(&x.goexitFired)
		runtime.Goexit()
	}
	return nil
}

// wrapErr is what a task returns when the directive it ran inside its body
// failed: an error value of the task's own that wraps the nested directive's.
type wrapErr struct {
	exec, id int
	inner    error
}

func (e *wrapErr) Error() string {
	return fmt.Sprintf("task %d of exec %d: nested directive failed: %v", e.id, e.exec, e.inner)
}
func (e *wrapErr) Unwrap() error { return e.inner }

//go:norace
func (x *execRun) setPropErr(id int, e error) {
	if id >= 0 && id < len(x.propErr) {
		x.propErr[id] = e
	}
}

// taskErr is the error value task id returns when it fails.
//
//go:norace
func (x *execRun) taskErr(id int) error {
	if id >= 0 && id < len(x.propErr) && x.propErr[id] != nil {
		return x.propErr[id]
	}
	return x.errOf(0, id, 0)
}

//go:norace
func (x *execRun) retErr() error {
	if !x.returned && x.err == nil {
		return x.lastErr
	}
	return x.err
}

// throw panics with v; the runtimePanic marker becomes a real runtime error.
func throw(v any) {
	if _, ok := v.(runtimePanic); ok {
		var m map[int]int
		m[1] = 1 // panics: assignment to entry in nil map
	}
	panic(v)
}

// panicEq reports whether a recovered value is the one the harness injected.
func panicEq(got, want any) bool {
	if _, ok := want.(runtimePanic); ok {
		re, isRE := got.(runtime.Error)
		return isRE && strings.Contains(re.Error(), "nil map")
	}
	return safeEq(got, want)
}

func (x *execRun) barrierSize() int {
	if x.d.BarrierN > 0 {
		return x.d.BarrierN
	}
	return x.limit()
}

func (x *execRun) limit() int {
	n := 0
	if x.prog.Flow != nil {
		switch x.prog.Flow.ConcMode {
		case progen.ArgConst:
			n = x.prog.Flow.ConcConst
		case progen.ArgRuntime:
			n = x.d.Conc
		}
	} else {
		switch x.prog.Par.ConcMode {
		case progen.ArgConst:
			n = x.prog.Par.ConcConst
		case progen.ArgRuntime:
			n = x.d.Conc
		}
	}
	if n > 0 {
		return n
	}
	n = x.r.d.GOMAXPROCS
	if n < 4 {
		n = 4
	}
	return n
}

func (h *hh) Task(id int, ctx context.Context, in ...uint64) rt.Out {
	x := h.x
	args := append([]uint64(nil), in...)
	outcome := x.d.TaskOut[id]
	err := h.body(0, id, 0, ctx, EvTaskStart, EvTaskEnd, args, 0, 0, x.d.Len[id], outcome, x.d.Stuck[id])
	var o rt.Out
	o.Err = err
	for k := range o.V {
		if err == nil {
			o.V[k] = progen.OutVal(x.prog.ID, id, k, args)
		} else {
			o.V[k] = progen.ErrVal // returned next to the error: nobody may see it
		}
	}
	return o
}

func (h *hh) Pred(id int, ctx context.Context, in ...uint64) bool {
	x := h.x
	sim := x.r.sim
	args := append([]uint64(nil), in...)
	sim.Yield(engine.HsBody)
	if sim.Aborted() {
		return false
	}
	x.log(EvPredStart, id, 0, args, 0, 0)
	x.enter(ctx)
	x.markPred(id)
	if x.d.WatchPred == id+1 {
		sim.SetFlag(flagPredSeen(x.idx))
	}
	for k := 0; k < x.d.Len[1000+id]; k++ {
		sim.Yield(engine.HsStep)
	}
	if x.d.Stuck[1000+id] {
		sim.Hold(engine.HoldFlag, flagReturned(x.idx), 0) // a predicate that takes its time: held until the directive has returned
	}
	if sim.Aborted() {
		return false
	}
	if x.d.CancelMode == CancelInPred && x.d.CancelTask == id {
		x.log(EvCancel, 1000+id, 0, nil, 0, 0)
		x.count(&x.cancelFired)
		x.getCancel()()
		sim.Yield(engine.HsAfter)
	}
	x.log(EvPredEnd, id, 0, nil, 0, 0)
	x.leave()
	switch x.d.PredOut[id] {
	case progen.PredFalse:
		x.count(&x.predFalse)
		return false
	case progen.PredPanic:
		x.count(&x.predPanic)
		throw(x.panicVal(3, id, 0))
	}
	return true
}

func (h *hh) Elem(id int, ctx context.Context, a int64, b uint64) error {
	x := h.x
	sim := x.r.sim
	sim.Yield(engine.HsBody)
	if sim.Aborted() {
		return nil
	}
	ord := x.nextOrd(id)
	outcome := progen.OK
	if c := x.d.Colls[id]; c != nil {
		outcome = c.Fail[ord]
	}
	x.log(EvElemStart, id, ord, nil, a, b)
	x.enter(ctx)
	for k := 0; k < x.d.Len[id]; k++ {
		sim.Yield(engine.HsStep)
	}
	if x.d.Barrier && outcome == progen.OK {
		sim.AddCounter(ctrBarrier(x.idx), 1)
		sim.Hold(engine.HoldCounter, ctrBarrier(x.idx), x.limit())
	}
	if sim.Aborted() {
		return nil
	}
	if x.d.CancelMode == CancelInElem && x.d.CancelTask == id && x.d.CancelOrd == ord {
		x.log(EvCancel, id, ord, nil, 0, 0)
		x.count(&x.cancelFired)
		x.getCancel()()
		sim.Yield(engine.HsAfter)
	}
	x.log(EvElemEnd, id, ord, nil, a, b)
	x.leave()
	switch outcome {
	case progen.Err:
		x.count(&x.errFired)
		return x.errOf(1, id, ord)
	case progen.Panic:
		x.count(&x.panicFired)
		throw(x.panicVal(1, id, ord))
	}
	return nil
}

func (h *hh) End(id int, ctx context.Context) error {
	x := h.x
	outcome := progen.OK
	if c := x.d.Colls[id]; c != nil {
		outcome = c.End
	}
	return h.body(2, id, 0, ctx, EvEndStart, EvEndEnd, nil, 0, 0, x.d.Len[2000+id], outcome, false)
}

func (h *hh) Probe(k int) {
	x := h.x
	x.r.sim.Yield(engine.HsArg)
	if x.r.sim.Aborted() {
		return
	}
	x.log(EvProbe, k, 0, nil, 0, 0)
}

func (h *hh) ProbeNext() {
	x := h.x
	n := x.takeNextProbe()
	id := -1
	for k, p := range x.prog.Probes {
		if p.Next {
			if n == 0 {
				id = k
				break
			}
			n--
		}
	}
	h.Probe(id)
}

//go:norace
func (x *execRun) takeNextProbe() int {
	n := x.nextProbe
	x.nextProbe++
	return n
}

func (h *hh) Ident(k int, ok bool) { h.x.noteIdent(k, ok) }

func (h *hh) Conc(int) int { return h.x.d.Conc }

func (h *hh) Bool(k int) bool { return h.x.d.Bools[k&1] }

func (h *hh) Emitter(k int) cff.Emitter { return &recEmitter{x: h.x, k: k} }

func (h *hh) SharedEmitter() cff.Emitter { return h.x.r.shared }

func (h *hh) NextEmitter() cff.Emitter { return &recEmitter{x: h.x, k: h.x.takeEmitter()} }

//go:norace
func (x *execRun) takeEmitter() int {
	k := x.nextEm
	x.nextEm++
	if k > 2 {
		k = 2
	}
	return k
}

func (h *hh) EmitterSlice() []cff.Emitter { return h.x.r.slice }

// routeEmitter is an emitter value shared by every execution of a run; it
// files each event under the execution whose context the event carries.
type routeEmitter struct {
	r *runner
	k int
}

func (e *routeEmitter) of(ctx context.Context) *recEmitter {
	tok, _ := ctx.Value(ctxKey{}).(*int)
	for _, x := range e.r.execs {
		if x.token == tok {
			return &recEmitter{x: x, k: e.k}
		}
	}
	return nil
}

type routeTask struct {
	e    *routeEmitter
	name string
}

func (e *routeEmitter) TaskInit(t *cff.TaskInfo, _ *cff.DirectiveInfo) cff.TaskEmitter {
	return &routeTask{e, t.Name}
}
func (e *routeEmitter) FlowInit(*cff.FlowInfo) cff.FlowEmitter                { return e }
func (e *routeEmitter) ParallelInit(*cff.ParallelInfo) cff.ParallelEmitter    { return (*routePar)(e) }
func (e *routeEmitter) SchedulerInit(*cff.SchedulerInfo) cff.SchedulerEmitter { return &sinkEmitter{} }
func (e *routeEmitter) ev(ctx context.Context, kind int, name string, err error, pv any) {
	if r := e.of(ctx); r != nil {
		r.rec(kind, name, err, pv)
	}
}
func (e *routeEmitter) FlowSuccess(ctx context.Context) { e.ev(ctx, EmFlowSuccess, "", nil, nil) }
func (e *routeEmitter) FlowError(ctx context.Context, err error) {
	e.ev(ctx, EmFlowError, "", err, nil)
}
func (e *routeEmitter) FlowDone(ctx context.Context, _ time.Duration) {
	e.ev(ctx, EmFlowDone, "", nil, nil)
}

type routePar routeEmitter

func (e *routePar) ParallelSuccess(ctx context.Context) {
	(*routeEmitter)(e).ev(ctx, EmFlowSuccess, "", nil, nil)
}
func (e *routePar) ParallelError(ctx context.Context, err error) {
	(*routeEmitter)(e).ev(ctx, EmFlowError, "", err, nil)
}
func (e *routePar) ParallelDone(ctx context.Context, _ time.Duration) {
	(*routeEmitter)(e).ev(ctx, EmFlowDone, "", nil, nil)
}
func (t *routeTask) TaskSuccess(ctx context.Context) { t.e.ev(ctx, EmTaskSuccess, t.name, nil, nil) }
func (t *routeTask) TaskError(ctx context.Context, err error) {
	t.e.ev(ctx, EmTaskError, t.name, err, nil)
}
func (t *routeTask) TaskErrorRecovered(ctx context.Context, err error) {
	t.e.ev(ctx, EmTaskErrorRecovered, t.name, err, nil)
}
func (t *routeTask) TaskSkipped(ctx context.Context, err error) {
	t.e.ev(ctx, EmTaskSkipped, t.name, err, nil)
}
func (t *routeTask) TaskPanic(ctx context.Context, pv any) { t.e.ev(ctx, EmTaskPanic, t.name, nil, pv) }
func (t *routeTask) TaskPanicRecovered(ctx context.Context, pv any) {
	t.e.ev(ctx, EmTaskPanicRecovered, t.name, nil, pv)
}
func (t *routeTask) TaskDone(ctx context.Context, _ time.Duration) {
	t.e.ev(ctx, EmTaskDone, t.name, nil, nil)
}

// sinkEmitter stands for a process-wide emitter: it is shared by all
// executions of a run and records nothing.
type sinkEmitter struct{}

func (s *sinkEmitter) TaskInit(*cff.TaskInfo, *cff.DirectiveInfo) cff.TaskEmitter { return s }
func (s *sinkEmitter) FlowInit(*cff.FlowInfo) cff.FlowEmitter                     { return s }
func (s *sinkEmitter) ParallelInit(*cff.ParallelInfo) cff.ParallelEmitter         { return s }
func (s *sinkEmitter) SchedulerInit(*cff.SchedulerInfo) cff.SchedulerEmitter      { return s }
func (*sinkEmitter) FlowSuccess(context.Context)                                  {}
func (*sinkEmitter) FlowError(context.Context, error)                             {}
func (*sinkEmitter) FlowDone(context.Context, time.Duration)                      {}
func (*sinkEmitter) ParallelSuccess(context.Context)                              {}
func (*sinkEmitter) ParallelError(context.Context, error)                         {}
func (*sinkEmitter) ParallelDone(context.Context, time.Duration)                  {}
func (*sinkEmitter) EmitScheduler(cff.SchedulerState)                             {}
func (*sinkEmitter) TaskSuccess(context.Context)                                  {}
func (*sinkEmitter) TaskError(context.Context, error)                             {}
func (*sinkEmitter) TaskErrorRecovered(context.Context, error)                    {}
func (*sinkEmitter) TaskSkipped(context.Context, error)                           {}
func (*sinkEmitter) TaskPanic(context.Context, any)                               {}
func (*sinkEmitter) TaskPanicRecovered(context.Context, any)                      {}
func (*sinkEmitter) TaskDone(context.Context, time.Duration)                      {}

func (h *hh) Coll(id int) []uint64 {
	c := h.x.d.Colls[id]
	if c == nil || c.Nil {
		return nil
	}
	return append([]uint64{}, c.Vals...)
}

func (h *hh) MapColl(id int) [][2]uint64 {
	c := h.x.d.Colls[id]
	if c == nil || c.Nil {
		return nil
	}
	out := make([][2]uint64, len(c.Vals))
	for i := range c.Vals {
		out[i] = [2]uint64{c.Keys[i], c.Vals[i]}
	}
	return out
}

// ---- recording emitters ----

type recEmitter struct {
	x *execRun
	k int
}

//go:norace
func (e *recEmitter) rec(kind int, name string, err error, pv any) {
	x := e.x
	if x.nem[e.k] < len(x.em[e.k]) {
		x.em[e.k][x.nem[e.k]] = EmEv{Kind: kind, Name: name, Err: err, PV: pv, Seq: x.r.sim.Seq}
		x.nem[e.k]++
	}
}

type recTask struct {
	e    *recEmitter
	name string
}

func (e *recEmitter) TaskInit(t *cff.TaskInfo, _ *cff.DirectiveInfo) cff.TaskEmitter {
	e.noteInit(t.Name, t.Line)
	return &recTask{e, t.Name}
}

//go:norace
func (e *recEmitter) noteInit(name string, line int) {
	x := e.x
	if x.ninits[e.k] < len(x.inits[e.k]) {
		x.inits[e.k][x.ninits[e.k]] = initRec{name, line}
		x.ninits[e.k]++
	}
}
func (e *recEmitter) FlowInit(*cff.FlowInfo) cff.FlowEmitter             { return e }
func (e *recEmitter) ParallelInit(*cff.ParallelInfo) cff.ParallelEmitter { return (*recPar)(e) }
func (e *recEmitter) SchedulerInit(*cff.SchedulerInfo) cff.SchedulerEmitter {
	return (*recSched)(e)
}

// slowAfterWait: a slow emitter holds whoever reports the directive's outcome for a step.
// Outcomes are reported after Wait has returned: what "the context was (not) done when the
// directive returned" means is fixed at this point (see TaskSkipped).
func (e *recEmitter) slowAfterWait(ctx context.Context) {
	if e.x.d.SlowEmit && e.k == 0 {
		e.x.notePostWait(e.x.ctxErrQuiet(ctx))
		if e.x.d.AtEmit && e.x.idx < 16 {
			e.x.r.sim.AddCounter(ctrPostWait(e.x.idx), 1)
		}
		e.x.r.sim.Yield(engine.HsMisc)
	}
}

func (e *recEmitter) FlowSuccess(ctx context.Context) {
	e.rec(EmFlowSuccess, "", nil, nil)
	e.slowAfterWait(ctx)
}
func (e *recEmitter) FlowError(ctx context.Context, err error) {
	e.rec(EmFlowError, "", err, nil)
	e.shareErr(ctx, err)
	e.slowAfterWait(ctx)
}

// shareErr: the emitter hands the directive's error to a logger goroutine, which formats it
// while the caller does the same with the error it got back: two readers of one error value,
// nothing ordering them. Race-free as long as formatting an error only reads.
func (e *recEmitter) shareErr(ctx context.Context, err error) {
	if !e.x.d.ShareErr || e.k != 0 || err == nil {
		return
	}
	sim := e.x.r.sim
	e.x.notePostWait(e.x.ctxErrQuiet(ctx))
	go func() {
		sim.Yield(engine.HsStart)
		_ = err.Error()
		sim.Exit()
	}()
	sim.Yield(engine.HsMisc)
}
func (e *recEmitter) FlowDone(context.Context, time.Duration) { e.rec(EmFlowDone, "", nil, nil) }

type recPar recEmitter

func (e *recPar) ParallelSuccess(ctx context.Context) {
	(*recEmitter)(e).rec(EmFlowSuccess, "", nil, nil)
	(*recEmitter)(e).slowAfterWait(ctx)
}
func (e *recPar) ParallelError(ctx context.Context, err error) {
	(*recEmitter)(e).rec(EmFlowError, "", err, nil)
	(*recEmitter)(e).shareErr(ctx, err)
	(*recEmitter)(e).slowAfterWait(ctx)
}
func (e *recPar) ParallelDone(context.Context, time.Duration) {
	(*recEmitter)(e).rec(EmFlowDone, "", nil, nil)
}

type recSched recEmitter

func (e *recSched) EmitScheduler(s cff.SchedulerState) {
	if e.x.d.SlowEmit && e.k == 0 {
		// an emitter that takes its time (publishing metrics): the caller of
		// EmitScheduler is held for one simulator step
		e.x.r.sim.Yield(engine.HsMisc)
	}
	e.note(s)
}

//go:norace
func (e *recSched) note(s cff.SchedulerState) {
	x := e.x
	if e.k == 0 && x.nstates < len(x.states) {
		x.states[x.nstates] = s
		x.nstates++
	} else if e.k == 0 && x.nbad < len(x.badStates) {
		// beyond the recording capacity (very long runs): keep what cannot be right on its face
		ex := s.Pending - s.Ready - s.Waiting
		if s.Pending < 0 || s.Ready < 0 || s.Waiting < 0 || s.IdleWorkers < 0 || ex < 0 || ex > s.Concurrency || s.IdleWorkers != s.Concurrency-ex {
			x.badStates[x.nbad] = s
			x.nbad++
		}
	}
	if e.k == 0 && x.returned && x.err == nil {
		x.statesAfterRet++
	}
}

func (t *recTask) TaskSuccess(context.Context) { t.e.rec(EmTaskSuccess, t.name, nil, nil) }
func (t *recTask) TaskError(_ context.Context, err error) {
	t.e.rec(EmTaskError, t.name, err, nil)
}
func (t *recTask) TaskErrorRecovered(_ context.Context, err error) {
	t.e.rec(EmTaskErrorRecovered, t.name, err, nil)
}
func (t *recTask) TaskSkipped(ctx context.Context, err error) {
	if t.e.x.d.SlowEmit && t.e.k == 0 {
		// a slow emitter: whoever reports the skip is held for a step. Skips are reported after
		// Wait has returned, so from here on the context may end without the directive having to
		// notice: what "the context was (not) done when the directive returned" means is fixed now.
		t.e.x.notePostWait(t.e.x.ctxErrQuiet(ctx))
		t.e.x.r.sim.Yield(engine.HsMisc)
	}
	t.e.rec(EmTaskSkipped, t.name, err, nil)
}
func (t *recTask) TaskPanic(_ context.Context, pv any) { t.e.rec(EmTaskPanic, t.name, nil, pv) }
func (t *recTask) TaskPanicRecovered(_ context.Context, pv any) {
	t.e.rec(EmTaskPanicRecovered, t.name, nil, pv)
}
func (t *recTask) TaskDone(context.Context, time.Duration) { t.e.rec(EmTaskDone, t.name, nil, nil) }

// ---- running ----

// errCause is the cause a CtxKind 2 context is cancelled with.
var errCause = errors.New("cancellation cause (not the context's error)")

func (r *runner) caller(i int) {
	if a := r.execs[i].d.After; a > 0 && a-1 < i {
		r.sim.Hold(engine.HoldFlag, flagReturned(a-1), 0)
		if r.sim.Aborted() {
			return
		}
	}
	r.runExec(r.execs[i], context.Background())
}

// runExec calls one directive: from a harness goroutine of its own (top
// level) or from inside a task body of another execution (nested; then the
// caller is a worker goroutine of the outer scheduler and parent is the
// context that task received).
func (r *runner) runExec(x *execRun, parent context.Context) {
	i := x.idx
	sim := r.sim
	d := x.d
	oldTag := sim.SwapTag(i)
	x.setStarted(x.log(EvCall, -1, 0, nil, 0, 0))
	base := context.WithValue(parent, ctxKey{}, x.token)
	ctx, cancel := context.WithCancel(base)
	if d.CtxKind == 1 && d.CancelMode != CancelDeadline && x.parent == nil && len(d.Nest) == 0 {
		uc := engine.NewUserCtx(ctx) // ctx: live standard parent, released at the end
		uc.YieldIn(sim)
		if d.AtErr > 0 && i < 16 {
			uc.CountCalls(sim, ctrErrCalls(i))
		}
		x.uc = uc
		stdCancel := cancel
		ctx, cancel = context.WithValue(uc, ctxKey{}, x.token), func() { uc.Cancel(); stdCancel() }
	}
	if d.CtxKind == 2 && d.CancelMode != CancelDeadline {
		// cancelled with a cause: what the directive reports is still the context's error
		cctx, ccancel := context.WithCancelCause(base)
		ctx, cancel = cctx, func() { ccancel(errCause) }
	}
	if d.CancelMode == CancelDeadline {
		dl := time.Duration(d.DelaySteps)*engine.Q + time.Duration(2*(d.DelaySteps%1000)+1)
		if d.CtxKind == 2 {
			ctx, cancel = context.WithTimeoutCause(base, dl, errCause)
		} else {
			ctx, cancel = context.WithTimeout(base, dl)
		}
		sim.SetTimerUntil(time.Now().UnixNano() + int64(dl))
		sim.AddIdleMax(d.DelaySteps + 4)
		context.AfterFunc(ctx, func() { x.log(EvCancel, -1, 0, nil, 0, 0); x.count(&x.cancelFired) })
	}
	h := &hh{x: x}
	uctx := rt.WithH(ctx, h)
	x.setCtx(uctx, cancel)
	x.ctxPub.Store(true)
	sim.SetFlag(flagCtxReady(i))
	if d.CancelMode == CancelBefore {
		x.log(EvCancel, -1, 0, nil, 0, 0)
		x.count(&x.cancelFired)
		cancel()
	}
	x.setCallerSlot(sim.SlotIndex())
	var (
		res        []uint64
		err        error
		propagated any
	)
	func() {
		defer func() {
			if rec := recover(); rec != nil {
				propagated = rec
			}
		}()
		res, err = x.fn(uctx, h, d.Params)
	}()
	if d.ShareErr && err != nil {
		_ = err.Error() // the caller formats what it got (see shareErr)
	}
	ctxErr := x.ctxErrQuiet(ctx)
	if set, e := x.postWait(); set {
		ctxErr = e
	}
	sim.SwapTag(oldTag)
	x.setLastErr(err)
	sim.Yield(engine.HsRet)
	if sim.Aborted() {
		return
	}
	x.log(EvRet, -1, 0, nil, 0, 0)
	x.setReturned(res, err, ctxErr, propagated)
	sim.SetFlag(flagReturned(i))
	if d.AtErr > 0 && i < 16 {
		sim.AddCounter(ctrErrCalls(i), 1<<20) // release a canceller still waiting for a look that never came
	}
	if d.AtEmit && i < 16 {
		sim.AddCounter(ctrPostWait(i), 1<<20)
	}
	sim.SetFlag(flagPredSeen(i)) // release a provider still held for the predicate-promptness probe
	x.log(EvCleanup, -1, 0, nil, 0, 0)
	cancel()
}

func (r *runner) canceller(i int) {
	x := r.execs[i]
	sim := r.sim
	sim.Hold(engine.HoldFlag, flagCtxReady(i), 0)
	_ = x.ctxPub.Load()
	if x.d.AtEmit && x.d.SlowEmit && i < 16 {
		// the context ends while the directive's caller is held inside the emitter that reports the outcome
		sim.Hold(engine.HoldCounter, ctrPostWait(i), 1)
		if sim.Aborted() || sim.Flag(flagReturned(i)) {
			return
		}
		x.log(EvCancel, -1, 0, nil, 0, 0)
		x.count(&x.cancelFired)
		x.getCancel()()
		return
	}
	if x.d.AtErr > 0 && x.d.CtxKind == 1 && i < 16 {
		// the context ends while the directive's caller is inside its AtErr-th look at it
		sim.Hold(engine.HoldCounter, ctrErrCalls(i), x.d.AtErr)
		if sim.Aborted() || sim.Flag(flagReturned(i)) {
			return
		}
		x.log(EvCancel, -1, 0, nil, 0, 0)
		x.count(&x.cancelFired)
		x.getCancel()()
		return
	}
	for k := 0; k < x.d.DelaySteps; k++ {
		sim.Yield(engine.HsMisc)
		if sim.Flag(flagReturned(i)) {
			break
		}
	}
	if sim.Aborted() {
		return
	}
	x.log(EvCancel, -1, 0, nil, 0, 0)
	x.count(&x.cancelFired)
	x.getCancel()()
}

// Result of one run.
type Result struct {
	D             *Desc
	Sim           *engine.Sim
	X             []*execRun
	Hash          uint64
	Steps         int
	Choices       []uint32
	Nontriv       int
	Quiesced      bool
	AllReturned   bool
	LeakDesc      []string
	LeakedBlocked bool
	StuckDesc     []string
	Trace         []string
	InvViol       []Violation
	OracleProbes  map[string]int
}

// Exec performs one simulated run.
func Exec(t *testing.T, d *Desc, replay, keepTrace bool, states map[uint64]struct{}) *Result {
	sim := &engine.Sim{Budget: d.Budget, FairAfter: d.FairAfter, KeepTrace: keepTrace, States: states}
	res := &Result{D: d, Sim: sim}
	r := &runner{sim: sim, d: d, shared: cff.EmitterStack(&sinkEmitter{}, &sinkEmitter{}, &sinkEmitter{})}
	r.slice = []cff.Emitter{cff.NopEmitter(), &routeEmitter{r, 0}, &routeEmitter{r, 1}}
	emitters := false
	newExec := func(ed *ExecD, parent *execRun) *execRun {
		pr := programs[ed.Prog]
		nevents := 4096
		for _, c := range ed.Colls {
			nevents += 2 * len(c.Vals)
		}
		nfail := 0
		for _, c := range ed.Colls {
			nfail += len(c.Fail)
		}
		x := &execRun{d: ed, parent: parent, prog: pr.P, fn: pr.Fn, r: r, token: new(int), events: make([]Ev, nevents),
			memo: make([]memoEnt, 0, 512+2*nfail), states: make([]cff.SchedulerState, 256)}
		for k := range x.em {
			x.em[k] = make([]EmEv, 1024)
		}
		x.sharedErr = &userErr{kind: -1, id: -1, ord: -1}
		if (pr.P.Flow != nil && pr.P.Flow.Emitters > 0) || (pr.P.Par != nil && pr.P.Par.Emitters > 0) {
			emitters = true
		}
		return x
	}
	// top-level executions occupy indices 0..n-1; nested ones follow in
	// depth-first order (children by ascending task id)
	for i := range d.Execs {
		x := newExec(&d.Execs[i], nil)
		x.idx = i
		r.execs = append(r.execs, x)
	}
	var addChildren func(x *execRun)
	addChildren = func(x *execRun) {
		var ids []int
		for id := range x.d.Nest {
			ids = append(ids, id)
		}
		sort.Ints(ids)
		for _, id := range ids {
			ch := newExec(x.d.Nest[id], x)
			ch.idx = len(r.execs)
			r.execs = append(r.execs, ch)
			if x.children == nil {
				x.children = map[int]*execRun{}
			}
			x.children[id] = ch
			addChildren(ch)
		}
	}
	for i := range d.Execs {
		addChildren(r.execs[i])
	}
	if len(r.execs) > 16 {
		panic("too many executions in one run")
	}
	res.X = r.execs
	sim.IdleMax = 3
	if emitters {
		sim.IdleMax = 100 // the default flush period is ~96 step boundaries
	}
	if d.Prop == "C03" {
		sim.CountEvery = 16
	}
	if d.Prop == "C03scale" || d.Prop == "C05scale" || d.Prop == "C08scale" || d.Prop == "C10scale" || d.Prop == "C10scale8" || d.Prop == "C19scale" {
		sim.CountEvery = 1024
	}
	if replay {
		sim.Ch = engine.ReplayChooser(d.Choices)
		sim.Pol = engine.NewPolicy("uniform", nil, 0)
	} else {
		sim.Ch = engine.NewChooser(d.Seed*1000003 + int64(d.Run))
		sim.Pol = engine.NewPolicy(d.Policy, sim.Ch.Rng(), d.Budget/8)
	}
	inv := &invChecker{r: r}
	sim.Inspect = inv.inspect
	res.LeakedBlocked = engine.RunBubble(t, sim, func() {
		for i := range d.Execs {
			i := i
			sim.Go(i, func() { r.caller(i) })
			if d.Execs[i].CancelMode == CancelExternal {
				sim.Go(100+i, func() { r.canceller(i) })
			}
		}
		for i := len(d.Execs); i < len(r.execs); i++ {
			i := i
			if r.execs[i].d.CancelMode == CancelExternal {
				sim.Go(100+i, func() { r.canceller(i) })
			}
		}
		sim.Drive()
		res.Quiesced = !sim.OverBudget && sim.Invalid == ""
		res.AllReturned = true
		for _, x := range r.execs {
			if x.isStarted() && !x.isReturned() {
				res.AllReturned = false
			}
		}
		res.StuckDesc = sim.Describe()
		if res.Quiesced && res.AllReturned {
			_, res.LeakDesc = sim.LiveSchedulerGoroutines()
		}
	})
	for _, x := range r.execs {
		x.events = x.events[:x.nev]
		for k := range x.em {
			x.em[k] = x.em[k][:x.nem[k]]
		}
		x.states = append(x.states[:x.nstates], x.badStates[:x.nbad]...)
	}
	res.Hash = sim.Hash()
	res.Steps = sim.Steps
	res.Choices = sim.Ch.Rec
	res.Nontriv = sim.Ch.Nontrivial
	res.Trace = sim.Trace
	res.InvViol = inv.viol
	return res
}

//go:build verif && go1.25

package l2

import (
	"encoding/json"
	"sort"
	"strings"
	"testing"
	"time"

	"cffverif/progen"
)

// MinimiseBudget bounds the wall-clock time spent shrinking one violation.
var MinimiseBudget = 20 * time.Second

func cloneDesc(d *Desc) *Desc {
	b, _ := json.Marshal(d)
	var c Desc
	_ = json.Unmarshal(b, &c)
	if c.Choices == nil {
		c.Choices = []uint32{}
	}
	for i := range c.Execs {
		x := &c.Execs[i]
		if x.TaskOut == nil {
			x.TaskOut = map[int]int{}
		}
		if x.PredOut == nil {
			x.PredOut = map[int]int{}
		}
		if x.Len == nil {
			x.Len = map[int]int{}
		}
		fixMaps(x)
	}
	return &c
}

func fixMaps(x *ExecD) {
	if x.TaskOut == nil {
		x.TaskOut = map[int]int{}
	}
	if x.PredOut == nil {
		x.PredOut = map[int]int{}
	}
	if x.Len == nil {
		x.Len = map[int]int{}
	}
	if x.Colls == nil {
		x.Colls = map[int]*CollD{}
	}
	for _, ch := range x.Nest {
		fixMaps(ch)
	}
}

// execPaths lists every execution of d (top level and nested) as a path:
// index of the top-level execution followed by the task ids of the nesting.
func execPaths(d *Desc) [][]int {
	var out [][]int
	var walk func(x *ExecD, path []int)
	walk = func(x *ExecD, path []int) {
		out = append(out, append([]int{}, path...))
		var ids []int
		for id := range x.Nest {
			ids = append(ids, id)
		}
		sort.Ints(ids)
		for _, id := range ids {
			walk(x.Nest[id], append(path, id))
		}
	}
	for i := range d.Execs {
		walk(&d.Execs[i], []int{i})
	}
	return out
}

func execAt(d *Desc, path []int) *ExecD {
	x := &d.Execs[path[0]]
	for _, id := range path[1:] {
		x = x.Nest[id]
	}
	return x
}

func classKey(c string) string {
	if i := strings.Index(c, ":"); i >= 0 {
		return c[:i]
	}
	return c
}

func Find(v []Violation, prop, key string) *Violation {
	for i := range v {
		if v[i].Prop == prop && (key == "" || classKey(v[i].Class) == key) {
			return &v[i]
		}
	}
	return nil
}

// Minimise shrinks schedule and fault plan of a failing run (the program is
// fixed: changing it would mean recompiling) while the same class persists.
func Minimise(t *testing.T, d *Desc, prop, class string, maxTrials int) (*Desc, *Result, int) {
	key := classKey(class)
	trials := 0
	deadline := time.Now().Add(MinimiseBudget)
	try := func(c *Desc) (*Result, bool) {
		if time.Now().After(deadline) {
			trials = maxTrials // wall-clock budget used up: stop shrinking, keep what we have
			return nil, false
		}
		if !barriersSatisfiable(c) {
			return nil, false // fewer barrier parties than the barrier needs: the symptom would be the harness's
		}
		trials++
		r := Exec(t, c, true, false, nil)
		return r, Find(Check(r), prop, key) != nil
	}
	best := cloneDesc(d)
	if _, ok := try(best); !ok {
		return nil, nil, trials
	}
	for round := 0; round < 4 && trials < maxTrials; round++ {
		progress := false
		lo, hi := 0, len(best.Choices)
		for lo < hi && trials < maxTrials {
			mid := (lo + hi) / 2
			c := cloneDesc(best)
			c.Choices = c.Choices[:mid]
			if _, ok := try(c); ok {
				best, hi, progress = c, mid, true
			} else {
				lo = mid + 1
			}
		}
		for e := len(best.Execs) - 1; e >= 0 && len(best.Execs) > 1 && trials < maxTrials; e-- {
			c := cloneDesc(best)
			c.Execs = append(c.Execs[:e], c.Execs[e+1:]...)
			if _, ok := try(c); ok {
				best, progress = c, true
			}
		}
		for _, path := range execPaths(best) {
			if len(path) < 2 || trials >= maxTrials {
				continue
			}
			c := cloneDesc(best)
			par := execAt(c, path[:len(path)-1])
			if par == nil || par.Nest[path[len(path)-1]] == nil {
				continue // an enclosing execution was already removed
			}
			delete(par.Nest, path[len(path)-1])
			if _, ok := try(c); ok {
				best, progress = c, true
			}
		}
		for _, path := range execPaths(best) {
			bx := execAt(best, path)
			var muts []func(x *ExecD) bool
			for id := range bx.TaskOut {
				id := id
				muts = append(muts, func(x *ExecD) bool { delete(x.TaskOut, id); return true })
			}
			for id := range bx.PredOut {
				id := id
				muts = append(muts, func(x *ExecD) bool { delete(x.PredOut, id); return true })
			}
			for id, l := range bx.Len {
				id := id
				if l > 0 {
					muts = append(muts, func(x *ExecD) bool { x.Len[id] = 0; return true })
				}
			}
			for id, cd := range bx.Colls {
				id := id
				for ord := range cd.Fail {
					ord := ord
					muts = append(muts, func(x *ExecD) bool { delete(x.Colls[id].Fail, ord); return true })
				}
				if len(cd.Vals) > 0 {
					muts = append(muts, func(x *ExecD) bool {
						c := x.Colls[id]
						c.Vals, c.Keys = c.Vals[:len(c.Vals)-1], c.Keys[:len(c.Keys)-1]
						return true
					})
				}
				if cd.End != 0 {
					muts = append(muts, func(x *ExecD) bool { x.Colls[id].End = 0; return true })
				}
			}
			muts = append(muts,
				func(x *ExecD) bool { v := x.CancelMode != 0; x.CancelMode = 0; x.Stuck = nil; return v },
				func(x *ExecD) bool { v := len(x.Stuck) > 0; x.Stuck = nil; return v },
				func(x *ExecD) bool { v := x.DelaySteps > 0; x.DelaySteps /= 2; return v },
				func(x *ExecD) bool { v := x.Conc > 1; x.Conc = 1; return v },
				func(x *ExecD) bool { v := x.SlowEmit; x.SlowEmit = false; return v },
				func(x *ExecD) bool { v := x.ShareErr; x.ShareErr = false; return v },
				func(x *ExecD) bool { v := x.SharedErr; x.SharedErr = false; return v },
				func(x *ExecD) bool { v := x.CtxKind != 0; x.CtxKind = 0; return v },
			)
			for _, m := range muts {
				if trials >= maxTrials {
					break
				}
				c := cloneDesc(best)
				if !m(execAt(c, path)) {
					continue
				}
				if _, ok := try(c); ok {
					best, progress = c, true
				}
			}
		}
		for chunk := len(best.Choices) / 2; chunk >= 1 && trials < maxTrials; chunk /= 2 {
			for at := 0; at+chunk <= len(best.Choices) && trials < maxTrials; {
				c := cloneDesc(best)
				c.Choices = append(append([]uint32{}, c.Choices[:at]...), c.Choices[at+chunk:]...)
				if _, ok := try(c); ok {
					best, progress = c, true
					continue
				}
				at += chunk
			}
		}
		if !progress {
			break
		}
	}
	final := Exec(t, best, true, true, nil)
	if Find(Check(final), prop, key) == nil {
		return nil, nil, trials
	}
	return best, final, trials
}

// barriersSatisfiable: every execution that runs as a capacity test (N-party
// barrier) still has at least N user functions that can meet at the barrier.
func barriersSatisfiable(d *Desc) bool {
	for _, path := range execPaths(d) {
		x := execAt(d, path)
		if !x.Barrier {
			continue
		}
		p := programs[x.Prog].P
		if p.Par == nil {
			// flow barrier: its parties must still be planned to succeed
			ok := 0
			for id := range x.BarrierSet {
				if x.TaskOut[id] == progen.OK {
					ok++
				}
			}
			limit := 0
			switch p.Flow.ConcMode {
			case progen.ArgConst:
				limit = p.Flow.ConcConst
			case progen.ArgRuntime:
				limit = x.Conc
			}
			if limit <= 0 {
				limit = max(d.GOMAXPROCS, 4)
			}
			if ok < x.BarrierN || x.BarrierN < 2 || limit < x.BarrierN {
				return false
			}
			continue
		}
		bodies := 0
		for _, t := range p.Par.Tasks {
			if x.TaskOut[t.ID] == progen.OK {
				bodies++
			}
		}
		for _, c := range p.Par.Colls {
			if cd := x.Colls[c.ID]; cd != nil && !cd.Nil {
				bodies += len(cd.Vals) - len(cd.Fail)
			}
		}
		limit := 0
		switch p.Par.ConcMode {
		case progen.ArgConst:
			limit = p.Par.ConcConst
		case progen.ArgRuntime:
			limit = x.Conc
		}
		if limit <= 0 {
			limit = max(d.GOMAXPROCS, 4)
		}
		if bodies < limit {
			return false
		}
	}
	return true
}

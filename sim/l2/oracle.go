//go:build verif && go1.25

package l2

import (
	"errors"
	"fmt"
	"reflect"
	"sort"
	"strings"

	"cffverif/engine"
	"cffverif/progen"

	"go.uber.org/cff"
	"go.uber.org/multierr"
)

type Violation struct {
	Prop  string `json:"prop"`
	Class string `json:"class"`
	Msg   string `json:"msg"`
}

type invChecker struct {
	r    *runner
	viol []Violation
	seen map[string]bool
}

func (c *invChecker) add(prop, class, msg string) {
	if c.seen == nil {
		c.seen = map[string]bool{}
	}
	if c.seen[prop+class] {
		return
	}
	c.seen[prop+class] = true
	c.viol = append(c.viol, Violation{prop, class, msg})
}

//go:norace
func (c *invChecker) inspect(s *engine.Sim) {
	for i, x := range c.r.execs {
		if x.inflight > x.limit() {
			c.add("C03", "inflight>limit", fmt.Sprintf("exec %d (%s): %d user functions executing at once, limit %d (step %d)", i, x.prog.Name, x.inflight, x.limit(), s.Steps))
		}
	}
	for i := 0; i < s.NumScheds(); i++ {
		tag := s.CallerTagOfSched(i)
		if tag < 0 || tag >= len(c.r.execs) {
			continue
		}
		lim := c.r.execs[tag].limit()
		w, o, _ := s.LiveOfSched(i)
		if dying := s.DyingOfSched(i); w-dying > lim {
			c.add("C03", "workers>limit", fmt.Sprintf("exec %d: %d live worker goroutines (%d dying), limit %d (step %d)", tag, w, dying, lim, s.Steps))
		}
		if o > 2 {
			c.add("C03", "extra-goroutines", fmt.Sprintf("exec %d: %d non-worker scheduler goroutines alive", tag, o))
		}
	}
	if n := s.ForeignLive(); n > 0 {
		c.add("C03", "foreign-goroutines", fmt.Sprintf("%d goroutines that neither the harness nor the scheduler's worker/loop/spawner sites started are alive inside user-visible callbacks (step %d)", n, s.Steps))
	}
	if s.MaxUnregistered > 1 {
		c.add("C03", "unaccounted-goroutines", fmt.Sprintf("%d goroutines alive in the bubble besides workers, loop, spawner and harness goroutines (step %d)", s.MaxUnregistered, s.Steps))
	}
}

type checker struct {
	out    []Violation
	probes map[string]int // reach probes: rare conditions the oracles actually met in this run
}

func (c *checker) probe(name string) {
	if c.probes == nil {
		c.probes = map[string]int{}
	}
	c.probes[name]++
}

func (c *checker) add(prop, class, f string, a ...any) {
	c.out = append(c.out, Violation{prop, class, fmt.Sprintf(f, a...)})
}

// safeEq compares two dynamic values; values of uncomparable types (a slice
// or map panic value, say) are compared structurally.
func safeEq(a, b any) (eq bool) {
	defer func() {
		if recover() != nil {
			eq = reflect.DeepEqual(a, b)
		}
	}()
	return a == b
}

var errGoexitMsg = "job exited unexpectedly"

// Check evaluates every L2 oracle over a finished run.
func Check(res *Result) []Violation {
	c := &checker{}
	defer func() { res.OracleProbes = c.probes }()
	c.out = append(c.out, res.InvViol...)
	sim := res.Sim
	if sim.Invalid != "" {
		return c.out
	}
	if sim.OverBudget && res.AllReturned {
		c.add("C06", "leak:still-running", "every directive has returned, yet scheduler goroutines keep running past the step budget %d (fair scheduling since step %d); live: %s", res.D.Budget, res.D.FairAfter, strings.Join(res.StuckDesc, "; "))
		return c.out
	}
	if sim.OverBudget {
		c.add("C05", "livelock", "step budget %d exceeded (fair scheduling since step %d); live: %s", res.D.Budget, res.D.FairAfter, strings.Join(res.StuckDesc, "; "))
		return c.out
	}
	if !res.AllReturned {
		msg := "system quiescent but a directive has not returned; live goroutines: " + strings.Join(res.StuckDesc, "; ")
		for _, x := range res.X {
			if x.returned || !x.started {
				continue
			}
			if x.d.Barrier {
				c.add("C03", "capacity-lost", "exec %d (%s): %d user functions are runnable at the same time and the limit is %d, but they never ran concurrently (barrier of %d never completed); %s", x.idx, x.prog.Name, x.barrierSize(), x.limit(), x.barrierSize(), msg)
			}
			if len(x.d.Stuck) > 0 && x.cancelFired > 0 {
				c.add("C09", "not-prompt", "exec %d (%s): context was cancelled but the directive does not return while tasks are still running; %s", x.idx, x.prog.Name, msg)
			}
			if x.d.HoldTask != 0 {
				c.add("C11", "predicate-delayed", "exec %d (%s): predicate of task %d was not evaluated although its own inputs were available (a provider only the task needs is still running); %s", x.idx, x.prog.Name, x.d.WatchPred-1, msg)
			}
		}
		c.add("C05", "deadlock:"+stuckClass(res.StuckDesc), "%s", msg)
		return dedupe(c.out)
	}
	if len(res.LeakDesc) > 0 {
		c.add("C06", "leak:"+stuckClass(res.LeakDesc), "after every directive returned and all started user functions finished, scheduler goroutines are still alive: %s", strings.Join(res.LeakDesc, "; "))
	} else if res.LeakedBlocked {
		c.add("C06", "leak:blocked-unregistered", "synctest reports goroutines blocked forever at the end of the run")
	}
	for _, x := range res.X {
		if !x.started {
			continue // nested execution whose enclosing task never ran
		}
		if x.propagated != nil {
			c.add("C04", "panic-propagated", "exec %d (%s): a panic escaped the directive: %v", x.idx, x.prog.Name, x.propagated)
			// a directive that panics has not done what it describes either
			if x.prog.Flow != nil {
				c.add("C02", "directive-panicked", "exec %d (%s): the flow did not run: a panic escaped it: %v", x.idx, x.prog.Name, x.propagated)
			} else {
				c.add("C10", "directive-panicked", "exec %d (%s): Parallel did not run its functions: a panic escaped it: %v", x.idx, x.prog.Name, x.propagated)
			}
			continue
		}
		if x.maxInfl > x.limit() {
			c.add("C03", "inflight>limit", "exec %d (%s): %d user functions executed at once, limit %d", x.idx, x.prog.Name, x.maxInfl, x.limit())
		}
		if x.ctxBad > 0 {
			c.add("C09", "ctx-identity", "exec %d (%s): %d user functions received a context that is not the directive's", x.idx, x.prog.Name, x.ctxBad)
		}
		if x.err == nil && x.ctxErrAtRet != nil {
			c.add("C09", "nil-after-cancel", "exec %d (%s): the context was done when the directive returned, yet it returned nil", x.idx, x.prog.Name)
			c.add("C07", "nil-but-cancelled", "exec %d (%s): the context was done when the directive returned, yet it returned nil", x.idx, x.prog.Name)
		}
		if x.prog.Flow != nil {
			c.checkFlow(x)
		} else {
			c.checkPar(x)
		}
		c.checkProbes(x)
		c.checkStates(x)
	}
	return dedupe(c.out)
}

func dedupe(v []Violation) []Violation {
	seen := map[string]bool{}
	var out []Violation
	for _, x := range v {
		k := x.Prop + "|" + x.Class
		if !seen[k] {
			seen[k] = true
			out = append(out, x)
		}
	}
	return out
}

func stuckClass(desc []string) string {
	set := map[string]bool{}
	for _, d := range desc {
		if i := strings.Index(d, "("); i >= 0 {
			d = d[i:]
		}
		set[d] = true
	}
	var ks []string
	for k := range set {
		ks = append(ks, k)
	}
	sort.Strings(ks)
	return strings.Join(ks, ",")
}

type span struct {
	n          int // number of starts
	start, end int // sequence numbers (first start, last end)
	args       []uint64
	slot       int
}

func eqArgs(a, b []uint64) bool {
	if len(a) != len(b) {
		return false
	}
	for i := range a {
		if a[i] != b[i] {
			return false
		}
	}
	return true
}

// cancelView returns the first instant at which the execution's context was
// cancelled: by its own plan (by = id of the task that cancelled, -1 for an
// outside party) or because the context of an enclosing execution was
// cancelled or released. before: that happened before the directive was
// called. inherited: an enclosing execution's context ended first.
func (x *execRun) cancelView() (seq, by int, before, inherited bool) {
	by = -2
	for _, e := range x.events {
		if e.Kind == EvCancel {
			seq, by = e.Seq, e.ID
			break
		}
	}
	ret := 0
	for _, e := range x.events {
		if e.Kind == EvRet {
			ret = e.Seq
		}
	}
	for p := x.parent; p != nil; p = p.parent {
		for _, e := range p.events {
			if ret != 0 && e.Seq > ret {
				continue // after this execution had returned
			}
			if (e.Kind == EvCancel || e.Kind == EvCleanup) && (seq == 0 || e.Seq < seq) {
				seq, by, inherited = e.Seq, -1, true
			}
		}
	}
	before = x.d.CancelMode == CancelBefore || (seq != 0 && x.callSeq != 0 && seq < x.callSeq)
	return
}

// sameWorkerAfterCancel: a user function cancelled the directive's context from
// inside its body. Whatever the goroutine it ran on starts afterwards was
// started after the cancellation in that goroutine's own program order: no
// schedule excuses it (a worker looks at the context before every function it
// runs, and one job is one user function).
func (c *checker) sameWorkerAfterCancel(x *execRun, who string, cancelSeq, cancelBy int, inherited bool) {
	if cancelSeq == 0 || cancelBy < 0 || inherited {
		return
	}
	if m := x.d.CancelMode; m != CancelInTask && m != CancelInElem && m != CancelInPred {
		return
	}
	slot := -1
	for _, e := range x.events {
		if e.Kind == EvCancel && e.Seq == cancelSeq {
			slot = e.Slot
		}
	}
	if slot < 0 {
		return
	}
	c.probe("cancel_from_inside_a_user_function:same_worker_rule_applied")
	for _, e := range x.events {
		if e.Seq <= cancelSeq || e.Slot != slot {
			continue
		}
		switch e.Kind {
		case EvTaskStart, EvPredStart, EvElemStart, EvEndStart:
			c.add("C09", "started-after-cancel:same-worker", "%s: a user function cancelled the context from inside its body (#%d, g%d); the same goroutine then started %s (#%d)", who, cancelSeq, slot, e, e.Seq)
			return
		}
	}
}

func (c *checker) checkFlow(x *execRun) {
	f := x.prog.Flow
	d := x.d
	who := fmt.Sprintf("exec %d (%s)", x.idx, x.prog.Name)
	pl := &progen.FlowPlan{Params: d.Params, Task: d.TaskOut, Pred: d.PredOut}
	M := progen.EvalFlow(x.prog.ID, f, pl)
	task := map[int]*span{}
	pred := map[int]*span{}
	cancelSeq, cancelBy, cancelBefore, cancelInherited := x.cancelView()
	c.sameWorkerAfterCancel(x, who, cancelSeq, cancelBy, cancelInherited)
	for _, e := range x.events {
		switch e.Kind {
		case EvTaskStart, EvPredStart:
			m := task
			if e.Kind == EvPredStart {
				m = pred
			}
			s := m[e.ID]
			if s == nil {
				s = &span{start: e.Seq, args: e.Args, slot: e.Slot}
				m[e.ID] = s
			}
			s.n++
		case EvTaskEnd:
			if s := task[e.ID]; s != nil {
				s.end = e.Seq
			}
		case EvPredEnd:
			if s := pred[e.ID]; s != nil {
				s.end = e.Seq
			}
		}
	}
	byID := map[int]*progen.TaskP{}
	prov := map[int]int{}
	for i := range f.Tasks {
		t := &f.Tasks[i]
		byID[t.ID] = t
		for _, o := range t.Out {
			prov[o] = t.ID
		}
	}
	goexit, faultFree, specials := false, true, false
	for id, o := range d.TaskOut {
		if o != progen.OK && byID[id] != nil {
			faultFree = false
		}
		if o == progen.Goexit {
			goexit = true
		}
	}
	for id, o := range d.PredOut {
		if byID[id] != nil && byID[id].Pred != nil {
			if o == progen.PredPanic {
				faultFree = false
			}
			if o != progen.PredTrue {
				specials = true
			}
		}
	}
	for _, t := range f.Tasks {
		if M.UsedFB[t.ID] {
			specials = true
		}
	}
	noCancel := d.CancelMode == CancelNone && !cancelInherited
	retSeq := 0
	for _, e := range x.events {
		if e.Kind == EvRet {
			retSeq = e.Seq
		}
	}
	for _, t := range f.Tasks {
		s := task[t.ID]
		switch {
		case M.UsedFB[t.ID] && d.PredOut[t.ID] == progen.PredPanic && t.Pred != nil:
			c.probe("fallback_taken_on_predicate_panic")
		case M.UsedFB[t.ID] && d.TaskOut[t.ID] == progen.Panic:
			c.probe("fallback_taken_on_panic")
		case M.UsedFB[t.ID] && d.TaskOut[t.ID] == progen.Err:
			c.probe("fallback_taken_on_error")
		}
		if t.Pred != nil && M.PredEval[t.ID] && d.PredOut[t.ID] == progen.PredFalse && pred[t.ID] != nil {
			c.probe("task_skipped_by_false_predicate")
		}
		if s != nil && x.returned && retSeq != 0 && s.start < retSeq && (s.end == 0 || s.end > retSeq) {
			c.probe("directive_returned_while_task_running")
		}
	}
	if d.HoldTask != 0 && x.returned {
		c.probe("predicate_evaluated_while_task_input_provider_held")
	}
	if x.err != nil && len(x.res) > 0 {
		c.probe("results_checked_untouched_on_error")
	}
	if cancelSeq != 0 {
		c.probe("context_cancelled_during_or_before_flow")
	}

	{
		seen := false
		for _, m := range []map[int]*span{task, pred} {
			for _, s := range m {
				for _, a := range s.args {
					seen = seen || a == progen.MutVal
				}
			}
		}
		for _, v := range x.res {
			seen = seen || v == progen.MutVal
		}
		if seen && f.MutArg {
			c.add("C15", "evaluation-order:operand-read-after-later-argument", "%s: a cff.Params argument that is a plain variable was read after a later argument's side effect had overwritten the variable (value %x reached the flow)", who, progen.MutVal)
		} else if seen {
			c.add("C15", "argument-read-after-the-call", "%s: a value the caller stores in its FallbackWith variable only after the directive has returned reached the flow (%x): the argument was not evaluated before the tasks started", who, progen.MutVal)
			c.add("C11", "fallback-value-read-late", "%s: a value the caller stores in its FallbackWith variable only after the directive has returned reached the flow (%x)", who, progen.MutVal)
		}
	}
	// at most once
	for id, s := range task {
		if s.n > 1 {
			c.add("C01", "ran-twice", "%s: task %d was invoked %d times", who, id, s.n)
			c.add("C02", "ran-twice", "%s: task %d was invoked %d times", who, id, s.n)
		}
	}
	for id, s := range pred {
		if s.n > 1 {
			c.add("C11", "predicate-twice", "%s: predicate of task %d was evaluated %d times", who, id, s.n)
			c.add("C01", "ran-twice", "%s: predicate of task %d was evaluated %d times", who, id, s.n)
		}
	}
	// invoked set and arguments against the model
	for id, s := range task {
		t := byID[id]
		if t == nil {
			continue
		}
		if !M.Invoked[id] {
			if t.Pred != nil && M.PredEval[id] && d.PredOut[id] != progen.PredTrue {
				c.add("C11", "invoked-despite-predicate", "%s: task %d was invoked although its predicate outcome was %s", who, id, [...]string{"true", "false", "panic"}[d.PredOut[id]])
			} else {
				c.add("C07", "ran-downstream-of-failure", "%s: task %d was invoked although a task it transitively depends on failed", who, id)
				c.add("C01", "after-failed-dep", "%s: task %d was invoked although a task it transitively depends on failed", who, id)
			}
			continue
		}
		if !eqArgs(s.args, M.Args[id]) {
			cls := "wrong-args"
			c.add("C02", cls, "%s: task %d received %x, the dataflow prescribes %x", who, id, s.args, M.Args[id])
			if specials {
				c.add("C11", "wrong-value-reaches-consumer", "%s: task %d received %x but predicate/fallback semantics prescribe %x", who, id, s.args, M.Args[id])
			}
		}
	}
	for id, s := range pred {
		if !M.PredEval[id] {
			c.add("C07", "ran-downstream-of-failure", "%s: predicate of task %d was evaluated although a task it depends on failed", who, id)
			c.add("C01", "after-failed-dep", "%s: predicate of task %d was evaluated although a task it depends on failed", who, id)
			continue
		}
		if !eqArgs(s.args, M.PredArgs[id]) {
			c.add("C11", "predicate-wrong-args", "%s: predicate of task %d received %x, expected %x", who, id, s.args, M.PredArgs[id])
			c.add("C02", "wrong-args", "%s: predicate of task %d received %x, expected %x", who, id, s.args, M.PredArgs[id])
		}
	}
	// ordering
	for id, s := range task {
		t := byID[id]
		if t == nil {
			continue
		}
		for _, in := range t.In {
			if u, ok := prov[in]; ok {
				if us := task[u]; us != nil && (us.end == 0 || us.end > s.start) {
					c.add("C01", "before-dep", "%s: task %d started (#%d) before its provider task %d had returned (end #%d)", who, id, s.start, u, us.end)
				}
			}
		}
		if t.Pred != nil {
			ps := pred[id]
			if ps == nil {
				c.add("C11", "task-without-predicate", "%s: task %d was invoked but its predicate was never evaluated", who, id)
			} else if ps.end == 0 || ps.end > s.start {
				c.add("C01", "before-dep", "%s: task %d started (#%d) before its predicate had returned (end #%d)", who, id, s.start, ps.end)
				c.add("C11", "task-before-predicate", "%s: task %d started (#%d) before its predicate had returned (end #%d)", who, id, s.start, ps.end)
			}
		}
	}
	for id, s := range pred {
		t := byID[id]
		if t == nil || t.Pred == nil {
			continue
		}
		for _, in := range t.Pred.In {
			if u, ok := prov[in]; ok {
				if us := task[u]; us != nil && (us.end == 0 || us.end > s.start) {
					c.add("C01", "before-dep", "%s: predicate of task %d started (#%d) before its provider task %d had returned (end #%d)", who, id, s.start, u, us.end)
				}
			}
		}
	}
	// completeness and results
	if noCancel && !goexit {
		if !M.AnyFailed {
			if x.err != nil {
				if faultFree {
					c.add("C02", "unexpected-error", "%s: no user function failed, yet the flow returned %v", who, x.err)
				} else {
					c.add("C11", "fallback-did-not-absorb", "%s: every failure is covered by a FallbackWith, yet the flow returned %v", who, x.err)
				}
				c.add("C07", "unattributable-error", "%s: flow returned %v although no task failed", who, x.err)
			} else {
				for id := range M.Invoked {
					if task[id] == nil {
						c.add("C07", "nil-but-incomplete", "%s: flow returned nil but task %d was never invoked", who, id)
						c.add("C02", "task-not-run", "%s: flow returned nil but task %d was never invoked", who, id)
					}
				}
				for id := range M.PredEval {
					if pred[id] == nil {
						c.add("C11", "predicate-not-evaluated", "%s: flow returned nil but the predicate of task %d was never evaluated", who, id)
					}
				}
				if !eqArgs(x.res, M.Results) {
					c.add("C02", "wrong-results", "%s: Results hold %x, the dataflow prescribes %x", who, x.res, M.Results)
					if specials {
						c.add("C11", "wrong-results", "%s: Results hold %x, predicate/fallback semantics prescribe %x", who, x.res, M.Results)
					}
				}
			}
		} else if x.err == nil {
			c.add("C07", "failure-swallowed", "%s: a task fails in every schedule of this plan, yet the flow returned nil", who)
			for id := range M.Failed {
				if d.TaskOut[id] == progen.Panic || d.PredOut[id] == progen.PredPanic {
					c.add("C04", "panic-swallowed", "%s: task %d panics (no fallback), yet the flow returned nil", who, id)
				}
			}
		}
	}
	if x.err != nil {
		for k, v := range x.res {
			if v != progen.Sentinel {
				c.add("C07", "results-written-on-error", "%s: flow returned %v but Results target %d was overwritten (%x)", who, x.err, k, v)
			}
		}
		c.attribute(x, who, task, pred, byID)
	}
	// cancellation
	if cancelSeq != 0 {
		inside := 0
		for _, m := range []map[int]*span{task, pred} {
			for _, s := range m {
				if s.start < cancelSeq && (s.end == 0 || s.end > cancelSeq) {
					inside++
				}
			}
		}
		up := f.Upstream()
		predCanceller := -1
		if cancelBy >= 1000 {
			predCanceller, cancelBy = cancelBy-1000, -1
		}
		for id, s := range task {
			if s.start < cancelSeq {
				continue
			}
			switch {
			case predCanceller >= 0 && (id == predCanceller || up[id][predCanceller]):
				c.add("C09", "started-after-cancel:dependent", "%s: the predicate of task %d cancelled the context (#%d); task %d, which can only start after that predicate, was still invoked (#%d)", who, predCanceller, cancelSeq, id, s.start)
			case cancelBy >= 0 && up[id][cancelBy]:
				c.add("C09", "started-after-cancel:dependent", "%s: task %d depends on task %d, which cancelled the context (#%d), and was still invoked (#%d)", who, id, cancelBy, cancelSeq, s.start)
			case cancelBefore:
				c.add("C09", "started-after-cancel:enqueued-later", "%s: the context was cancelled before the directive was called, yet task %d was invoked", who, id)
			case inside >= x.limit():
				c.add("C09", "started-after-cancel:no-free-worker", "%s: all %d workers were inside user functions at the cancellation (#%d), yet task %d was invoked afterwards (#%d)", who, x.limit(), cancelSeq, id, s.start)
			}
		}
		for id, s := range pred {
			if s.start < cancelSeq {
				continue
			}
			switch {
			case predCanceller >= 0 && id != predCanceller && predUp(f, up, id)[predCanceller]:
				c.add("C09", "started-after-cancel:dependent", "%s: predicate of task %d depends on task %d, whose predicate cancelled the context, and was still evaluated", who, id, predCanceller)
			case cancelBy >= 0 && predUp(f, up, id)[cancelBy]:
				c.add("C09", "started-after-cancel:dependent", "%s: predicate of task %d depends on task %d, which cancelled the context, and was still evaluated", who, id, cancelBy)
			case cancelBefore:
				c.add("C09", "started-after-cancel:enqueued-later", "%s: the context was cancelled before the directive was called, yet predicate %d was evaluated", who, id)
			}
		}
	}
	c.checkEmittersFlow(x, who, task, byID, goexit)
}

func predUp(f *progen.FlowP, up map[int]map[int]bool, id int) map[int]bool {
	s := map[int]bool{}
	prov := map[int]int{}
	for i := range f.Tasks {
		for _, o := range f.Tasks[i].Out {
			prov[o] = f.Tasks[i].ID
		}
	}
	for i := range f.Tasks {
		t := &f.Tasks[i]
		if t.ID != id || t.Pred == nil {
			continue
		}
		for _, in := range t.Pred.In {
			if p, ok := prov[in]; ok {
				s[p] = true
				for k := range up[p] {
					s[k] = true
				}
			}
		}
	}
	return s
}

// attribute checks that a non-nil flow error is a real failure of this run.
func (c *checker) attribute(x *execRun, who string, task, pred map[int]*span, byID map[int]*progen.TaskP) {
	d := x.d
	err := x.err
	onlyPanics, anyFailure := true, false
	ok := false
	var pe *cff.PanicError
	isPanic := errors.As(err, &pe)
	for id, s := range task {
		t := byID[id]
		if t == nil || s.end == 0 {
			continue
		}
		if t.Fallback && d.TaskOut[id] != progen.Goexit {
			continue
		}
		switch d.TaskOut[id] {
		case progen.Err:
			anyFailure, onlyPanics = true, false
			if errors.Is(err, x.taskErr(id)) {
				ok = true
			}
		case progen.Panic:
			anyFailure = true
			if isPanic && panicEq(pe.Value, x.panicVal(0, id, 0)) {
				ok = true
			}
		case progen.Goexit:
			anyFailure, onlyPanics = true, false
			if err.Error() == errGoexitMsg {
				ok = true
			}
		}
	}
	for id, s := range pred {
		t := byID[id]
		if t == nil || s.end == 0 || t.Fallback || d.PredOut[id] != progen.PredPanic {
			continue
		}
		anyFailure = true
		if isPanic && panicEq(pe.Value, x.panicVal(3, id, 0)) {
			ok = true
		}
	}
	ctxOK := x.ctxErrAtRet != nil && errors.Is(err, x.ctxErrAtRet)
	if ctxOK {
		return
	}
	if !ok {
		c.add("C07", "unattributable-error", "%s: returned error %q is neither the error/PanicError of a user function that failed in this run nor the context's error", who, err)
		if isPanic {
			c.add("C04", "wrong-panic-value", "%s: returned PanicError carries value %v, which no user function panicked with", who, pe.Value)
		}
	}
	if anyFailure && onlyPanics && !isPanic && x.ctxErrAtRet == nil {
		c.add("C04", "panic-not-reported", "%s: every failure of this run was a panic, yet errors.As(err, **cff.PanicError) fails for %q", who, err)
	}
}

func (c *checker) checkProbes(x *execRun) {
	if x.identBad > 0 {
		c.add("C15", "identifier-captured", "exec %d (%s): a directive argument mentions the enclosing function's variable err, but when it was evaluated the name denoted an identifier introduced by generated code", x.idx, x.prog.Name)
	}
	n := len(x.prog.Probes)
	if n == 0 {
		return
	}
	who := fmt.Sprintf("exec %d (%s)", x.idx, x.prog.Name)
	seq := make([]int, n)
	cnt := make([]int, n)
	first := 0
	for _, e := range x.events {
		switch e.Kind {
		case EvProbe:
			if e.ID >= 0 && e.ID < n {
				cnt[e.ID]++
				seq[e.ID] = e.Seq
				if e.Slot != x.callerSlot {
					c.add("C15", "evaluated-off-caller", "%s: argument %d (%s) was evaluated on goroutine g%d, not on the caller g%d", who, e.ID, x.prog.Probes[e.ID].What, e.Slot, x.callerSlot)
				}
			}
		case EvTaskStart, EvPredStart, EvElemStart, EvEndStart:
			if first == 0 {
				first = e.Seq
			}
		}
	}
	for k := 0; k < n; k++ {
		if cnt[k] != 1 {
			c.add("C15", "evaluation-count", "%s: argument %d (%s) was evaluated %d times", who, k, x.prog.Probes[k].What, cnt[k])
			continue
		}
		if k > 0 && cnt[k-1] == 1 && seq[k] < seq[k-1] {
			c.add("C15", "evaluation-order", "%s: argument %d (%s) was evaluated before argument %d (%s)", who, k, x.prog.Probes[k].What, k-1, x.prog.Probes[k-1].What)
		}
		if first != 0 && seq[k] > first {
			c.add("C15", "evaluated-after-task-start", "%s: argument %d (%s) was evaluated (#%d) after a user function had already started (#%d)", who, k, x.prog.Probes[k].What, seq[k], first)
		}
	}
}

// jobBounds returns how many jobs an execution can submit at most, and how
// many of them name dependencies.
func jobBounds(x *execRun) (jobs, withDeps int) {
	if f := x.prog.Flow; f != nil {
		prov := map[int]bool{}
		for i := range f.Tasks {
			for _, o := range f.Tasks[i].Out {
				prov[o] = true
			}
		}
		for i := range f.Tasks {
			t := &f.Tasks[i]
			jobs++
			dep := t.Pred != nil
			for _, in := range t.In {
				dep = dep || prov[in]
			}
			if dep {
				withDeps++
			}
			if t.Pred != nil {
				jobs++
				for _, in := range t.Pred.In {
					if prov[in] {
						withDeps++
						break
					}
				}
			}
		}
		return
	}
	p := x.prog.Par
	jobs = len(p.Tasks)
	for i := range p.Colls {
		if cd := x.d.Colls[p.Colls[i].ID]; cd != nil && !cd.Nil {
			jobs += len(cd.Vals)
		}
		if p.Colls[i].End != nil {
			jobs++
			withDeps++
		}
	}
	return
}

func (c *checker) checkStates(x *execRun) {
	who := fmt.Sprintf("exec %d (%s)", x.idx, x.prog.Name)
	jobs, withDeps := jobBounds(x)
	if x.statesAfterRet > 0 {
		c.add("C19", "report-after-wait", "%s: %d scheduler state reports were emitted after the directive had returned nil", who, x.statesAfterRet)
	}
	if len(x.states) > 0 {
		c.probe("scheduler_state_reports_checked")
	}
	for _, st := range x.states {
		if st.Pending > jobs {
			c.add("C19", "pending>submitted", "%s: report %+v: Pending exceeds the %d jobs this directive can submit", who, st, jobs)
		}
		if st.Waiting > withDeps {
			c.add("C19", "waiting>submitted-with-deps", "%s: report %+v: Waiting exceeds the %d jobs of this directive that have dependencies", who, st, withDeps)
		}
		ex := st.Pending - st.Ready - st.Waiting
		switch {
		case st.Pending < 0 || st.Ready < 0 || st.Waiting < 0 || st.IdleWorkers < 0:
			c.add("C19", "negative", "%s: report %+v has a negative count", who, st)
		case st.Concurrency != x.limit():
			c.add("C19", "concurrency-field", "%s: report %+v: Concurrency != limit %d", who, st, x.limit())
		case ex < 0:
			c.add("C19", "executing<0", "%s: report %+v: Pending-Ready-Waiting < 0", who, st)
		case ex > st.Concurrency:
			c.add("C19", "executing>concurrency", "%s: report %+v: executing %d exceeds Concurrency", who, st, ex)
		case st.IdleWorkers != st.Concurrency-ex:
			c.add("C19", "idle-arithmetic", "%s: report %+v: IdleWorkers != Concurrency - executing", who, st)
		}
	}
}

// ---- emitters ----

func emEq(a, b EmEv) bool {
	return a.Kind == b.Kind && a.Name == b.Name && safeEq(a.Err, b.Err) && safeEq(a.PV, b.PV)
}

// checkDirectiveEvents: exactly one Success/Error (Error carrying the
// returned error) followed by exactly one Done, Done last.
func (c *checker) checkDirectiveEvents(x *execRun, who string, k int, instrumented bool) {
	var dir []EmEv
	for _, e := range x.em[k] {
		if e.Kind <= EmFlowDone {
			dir = append(dir, e)
		}
	}
	if !instrumented {
		if len(dir) != 0 {
			c.add("C18", "directive-events-uninstrumented", "%s emitter %d: directive is not instrumented but received %v", who, k, dir)
		}
		return
	}
	ns, ne, nd := 0, 0, 0
	for _, e := range dir {
		switch e.Kind {
		case EmFlowSuccess:
			ns++
		case EmFlowError:
			ne++
			if !safeEq(e.Err, x.err) {
				c.add("C18", "error-event-wrong-error", "%s emitter %d: Error event carries %v but the directive returned %v", who, k, e.Err, x.err)
			}
		case EmFlowDone:
			nd++
		}
	}
	if ns+ne != 1 || nd != 1 {
		c.add("C18", "directive-event-count", "%s emitter %d: %d Success, %d Error, %d Done events (directive returned %v)", who, k, ns, ne, nd, x.err)
		return
	}
	if (x.err == nil) != (ns == 1) {
		c.add("C18", "directive-event-kind", "%s emitter %d: directive returned %v but emitted Success=%d Error=%d", who, k, x.err, ns, ne)
	}
	if dir[len(dir)-1].Kind != EmFlowDone {
		c.add("C18", "done-not-last", "%s emitter %d: Done is not the last directive-level event: %v", who, k, dir)
	}
}

// checkTaskEvents checks the per-invocation protocol of one instrumented task.
func (c *checker) checkTaskEvents(x *execRun, who string, k int, name string, invoked bool, outcome int, fallback bool, kind, id int) {
	cnt := map[int]int{}
	var evs []EmEv
	for _, e := range x.em[k] {
		if e.Name == name && e.Kind > EmFlowDone {
			cnt[e.Kind]++
			evs = append(evs, e)
		}
	}
	if invoked && outcome == progen.Goexit {
		// the function left by runtime.Goexit: nothing of what the protocol can say happened
		// (in particular not Success); the current code reports TaskDone only
		for _, kk := range []int{EmTaskSuccess, EmTaskError, EmTaskErrorRecovered, EmTaskPanic, EmTaskPanicRecovered} {
			if cnt[kk] != 0 {
				c.add("C18", "task-outcome-events", "%s emitter %d: task %s exited its goroutine (runtime.Goexit), yet it emitted %s: %v", who, k, name, emNames[kk], evs)
				break
			}
		}
		return
	}
	if invoked {
		want := EmTaskSuccess
		switch {
		case outcome == progen.Err && fallback:
			want = EmTaskErrorRecovered
		case outcome == progen.Err:
			want = EmTaskError
		case outcome == progen.Panic && fallback:
			want = EmTaskPanicRecovered
		case outcome == progen.Panic:
			want = EmTaskPanic
		}
		for _, kk := range []int{EmTaskSuccess, EmTaskError, EmTaskErrorRecovered, EmTaskPanic, EmTaskPanicRecovered} {
			w := 0
			if kk == want {
				w = 1
			}
			if cnt[kk] != w {
				c.add("C18", "task-outcome-events", "%s emitter %d: task %s was invoked with outcome %d (fallback=%v): expected exactly one %s, got events %v", who, k, name, outcome, fallback, emNames[want], evs)
				break
			}
		}
		// an event that says "recovered" while the directive fails with that very failure does not match what happened
		if cnt[EmTaskErrorRecovered] > 0 && x.err != nil && errors.Is(x.err, x.fnErr(kind, id)) && !x.d.SharedErr {
			c.add("C18", "task-outcome-events", "%s emitter %d: task %s emitted TaskErrorRecovered, yet the directive returned that task's error %v", who, k, name, x.err)
		}
		if _, indistinct := x.panicVal(kind, id, 0).(runtimePanic); cnt[EmTaskPanicRecovered] > 0 && x.err != nil && !indistinct {
			// (runtime-error panics of different functions are indistinguishable: no attribution then)
			var pe *cff.PanicError
			if errors.As(x.err, &pe) && panicEq(pe.Value, x.panicVal(kind, id, 0)) {
				c.add("C18", "task-outcome-events", "%s emitter %d: task %s emitted TaskPanicRecovered, yet the directive returned that task's panic as its error", who, k, name)
			}
		}
		if cnt[EmTaskDone] != 1 {
			c.add("C18", "task-done-count", "%s emitter %d: task %s was invoked but received %d TaskDone events: %v", who, k, name, cnt[EmTaskDone], evs)
		}
		for _, e := range evs {
			switch e.Kind {
			case EmTaskError, EmTaskErrorRecovered:
				if !safeEq(e.Err, x.fnErr(kind, id)) {
					c.add("C18", "task-event-payload", "%s emitter %d: task %s: %s carries %v, the task returned %v", who, k, name, emNames[e.Kind], e.Err, x.fnErr(kind, id))
				}
			case EmTaskPanic, EmTaskPanicRecovered:
				if !panicEq(e.PV, x.panicVal(kind, id, 0)) {
					c.add("C18", "task-event-payload", "%s emitter %d: task %s: %s carries %v, the task panicked with %v", who, k, name, emNames[e.Kind], e.PV, x.panicVal(kind, id, 0))
				}
			}
		}
	} else if x.err == nil {
		if cnt[EmTaskSkipped] != 1 {
			c.add("C18", "task-skipped-count", "%s emitter %d: directive returned nil, task %s was not invoked, but it received %d TaskSkipped events: %v", who, k, name, cnt[EmTaskSkipped], evs)
		}
	}
}

// fnErr is the error value the user function (kind, id) returns when it fails.
func (x *execRun) fnErr(kind, id int) error {
	if kind == 0 {
		return x.taskErr(id)
	}
	return x.errOf(kind, id, 0)
}

func (c *checker) checkStacksEqual(x *execRun, who string, n int) {
	// A slow first member parks whoever is reporting, between its own call and the next
	// member's: reports of different goroutines can then reach the members in different orders.
	// What every member must still see is the same reports, each goroutine's in its order - and
	// the reports about one task, like those about the directive, all come from one goroutine.
	byName := func(l []EmEv) []EmEv {
		out := append([]EmEv{}, l...)
		key := func(e EmEv) string {
			if e.Kind == EmTaskSkipped {
				return e.Name + "\x00skipped" // reported by the caller, whoever else reports about that task
			}
			return e.Name
		}
		sort.SliceStable(out, func(i, j int) bool { return key(out[i]) < key(out[j]) })
		return out
	}
	for k := 1; k < n; k++ {
		a, b := x.em[0], x.em[k]
		if x.d.SlowEmit || x.d.ShareErr {
			a, b = byName(a), byName(b)
		}
		same := len(a) == len(b)
		for i := 0; same && i < len(a); i++ {
			same = emEq(a[i], b[i])
		}
		if !same {
			c.add("C18", "stack-members-differ", "%s: emitter %d of the stack received %v, emitter 0 received %v", who, k, b, a)
		}
	}
}

func (c *checker) checkEmittersFlow(x *execRun, who string, task map[int]*span, byID map[int]*progen.TaskP, goexit bool) {
	f := x.prog.Flow
	if f.Emitters == 0 {
		return
	}
	for k := 0; k < f.Emitters; k++ {
		c.checkDirectiveEvents(x, who, k, f.InstrFlow)
		if x.prog.AutoInstr {
			// -auto-instrument names tasks "<file>.<line>" by a rule that is not
			// part of the property; without a trustworthy name->task mapping only
			// the directive-level protocol and stack equality are judged here.
			continue
		}
		for id, t := range byID {
			if !t.Instr {
				continue
			}
			s := task[id]
			c.checkTaskEvents(x, who, k, fmt.Sprintf("t%d", id), s != nil && s.end != 0, x.d.TaskOut[id], t.Fallback, 0, id)
		}
	}
	c.checkStacksEqual(x, who, f.Emitters)
}

// ---- Parallel ----

func (c *checker) checkPar(x *execRun) {
	p := x.prog.Par
	d := x.d
	who := fmt.Sprintf("exec %d (%s)", x.idx, x.prog.Name)
	coe := false
	switch p.COEMode {
	case progen.ArgConst:
		coe = true
	case progen.ArgRuntime:
		coe = d.Bools[0] && !d.Bools[1]
	}
	task := map[int]*span{}
	type elemCall struct {
		ord        int
		a          int64
		b          uint64
		start, end int
	}
	elems := map[int][]*elemCall{}
	endHook := map[int]*span{}
	cancelSeq, cancelBy, cancelBefore, cancelInherited := x.cancelView()
	c.sameWorkerAfterCancel(x, who, cancelSeq, cancelBy, cancelInherited)
	for _, e := range x.events {
		switch e.Kind {
		case EvTaskStart:
			s := task[e.ID]
			if s == nil {
				s = &span{start: e.Seq}
				task[e.ID] = s
			}
			s.n++
		case EvTaskEnd:
			if s := task[e.ID]; s != nil {
				s.end = e.Seq
			}
		case EvElemStart:
			elems[e.ID] = append(elems[e.ID], &elemCall{ord: e.Ord, a: e.A, b: e.B, start: e.Seq})
		case EvElemEnd:
			if l := elems[e.ID]; e.Ord < len(l) && l[e.Ord].ord == e.Ord {
				l[e.Ord].end = e.Seq
			}
		case EvEndStart:
			s := endHook[e.ID]
			if s == nil {
				s = &span{start: e.Seq}
				endHook[e.ID] = s
			}
			s.n++
		case EvEndEnd:
			if s := endHook[e.ID]; s != nil {
				s.end = e.Seq
			}
		}
	}
	noCancel := d.CancelMode == CancelNone && !cancelInherited
	for id, eh := range endHook {
		_ = id
		if eh.end != 0 {
			c.probe("end_hook_ran")
		}
	}
	for i := range p.Colls {
		col := &p.Colls[i]
		if col.End != nil && endHook[col.ID] == nil && x.returned {
			c.probe("end_hook_not_run_(failure_cancel_or_early_exit)")
		}
		if cd := d.Colls[col.ID]; cd == nil || cd.Nil || len(cd.Vals) == 0 {
			c.probe("empty_or_nil_collection")
		}
	}
	if d.CancelMode == CancelInElem && cancelSeq != 0 {
		c.probe("context_cancelled_inside_element_call")
	}
	if coe && x.err != nil && len(multierr.Errors(x.err)) > 1 {
		c.probe("continue_on_error_multiple_entries")
	}
	goexit := false
	fired := 0 // failures that actually happened
	var wantErrs []error
	var wantPanics []any
	for i := range p.Tasks {
		t := &p.Tasks[i]
		s := task[t.ID]
		if s != nil && s.n > 1 {
			c.add("C10", "task-twice", "%s: parallel task %d was invoked %d times", who, t.ID, s.n)
			c.add("C01", "ran-twice", "%s: parallel task %d was invoked %d times", who, t.ID, s.n)
		}
		if s != nil && s.end != 0 {
			switch d.TaskOut[t.ID] {
			case progen.Err:
				fired++
				wantErrs = append(wantErrs, x.taskErr(t.ID))
			case progen.Panic:
				fired++
				wantPanics = append(wantPanics, x.panicVal(0, t.ID, 0))
			case progen.Goexit:
				fired++
				goexit = true
			}
		}
	}
	for i := range p.Colls {
		col := &p.Colls[i]
		cd := d.Colls[col.ID]
		if cd == nil {
			cd = &CollD{Nil: true}
		}
		// expected multiset of calls
		type ab struct {
			a int64
			b uint64
		}
		want := map[ab]int{}
		size := 0
		if !cd.Nil {
			size = len(cd.Vals)
			for k, v := range cd.Vals {
				switch {
				case col.Map:
					want[ab{int64(cd.Keys[k]), v}]++
				case col.Index:
					want[ab{int64(k), v}]++
				default:
					want[ab{-1, v}]++
				}
			}
		}
		elemFailed := false
		lastEnd := 0
		ended := 0
		for _, ec := range elems[col.ID] {
			k := ab{ec.a, ec.b}
			want[k]--
			if want[k] < 0 {
				c.add("C10", "element-call-unexpected", "%s: collection %d: function called with (%d, %x), which is not an element of the collection or was already passed once", who, col.ID, ec.a, ec.b)
			}
			if ec.end != 0 {
				ended++
				if ec.end > lastEnd {
					lastEnd = ec.end
				}
				switch cd.Fail[ec.ord] {
				case progen.Err:
					fired++
					elemFailed = true
					wantErrs = append(wantErrs, x.errOf(1, col.ID, ec.ord))
				case progen.Panic:
					fired++
					elemFailed = true
					wantPanics = append(wantPanics, x.panicVal(1, col.ID, ec.ord))
				}
			}
		}
		if eh := endHook[col.ID]; eh != nil {
			if col.End == nil {
				c.add("C10", "end-hook-unexpected", "%s: collection %d has no End function but one ran", who, col.ID)
			}
			if eh.n > 1 {
				c.add("C10", "end-hook-twice", "%s: End function of collection %d ran %d times", who, col.ID, eh.n)
			}
			if elemFailed {
				c.add("C10", "end-hook-after-failure", "%s: End function of collection %d ran although one of its element calls failed", who, col.ID)
			}
			if ended < size || len(elems[col.ID]) < size {
				c.add("C10", "end-hook-early", "%s: End function of collection %d started after only %d of %d element calls had returned", who, col.ID, ended, size)
				c.add("C01", "before-dep", "%s: End function of collection %d started after only %d of %d element calls had returned", who, col.ID, ended, size)
			} else if lastEnd > eh.start {
				c.add("C10", "end-hook-early", "%s: End function of collection %d started (#%d) before the last element call returned (#%d)", who, col.ID, eh.start, lastEnd)
				c.add("C01", "before-dep", "%s: End function of collection %d started (#%d) before the last element call returned (#%d)", who, col.ID, eh.start, lastEnd)
			}
			if eh.end != 0 {
				switch cd.End {
				case progen.Err:
					fired++
					wantErrs = append(wantErrs, x.errOf(2, col.ID, 0))
				case progen.Panic:
					fired++
					wantPanics = append(wantPanics, x.panicVal(2, col.ID, 0))
				}
			}
		}
		// completeness on nil return
		if x.err == nil {
			for k, n := range want {
				if n > 0 {
					c.add("C10", "element-not-called", "%s: Parallel returned nil but the function of collection %d was never called with (%d, %x)", who, col.ID, k.a, k.b)
					if p.MutArg && len(elems[col.ID]) == 0 {
						c.add("C15", "evaluation-order:operand-read-after-later-argument", "%s: collection %d, passed as a plain variable, was read after a later argument's side effect had set the variable to nil (no element was processed)", who, col.ID)
					}
				}
			}
			if col.End != nil && (endHook[col.ID] == nil || endHook[col.ID].end == 0) {
				c.add("C10", "end-hook-not-run", "%s: Parallel returned nil but the End function of collection %d did not run", who, col.ID)
			}
		}
		if coe && noCancel && !goexit {
			for k, n := range want {
				if n > 0 {
					c.add("C08", "runnable-not-run", "%s: ContinueOnError: function of collection %d was never called with (%d, %x)", who, col.ID, k.a, k.b)
				}
			}
		}
	}
	if x.err == nil {
		for i := range p.Tasks {
			t := &p.Tasks[i]
			if s := task[t.ID]; s == nil || s.end == 0 {
				c.add("C10", "task-not-run", "%s: Parallel returned nil but task %d did not run", who, t.ID)
				c.add("C07", "nil-but-incomplete", "%s: Parallel returned nil but task %d did not run", who, t.ID)
			}
		}
		if fired > 0 && noCancel {
			c.add("C07", "failure-swallowed", "%s: %d user functions failed but Parallel returned nil", who, fired)
			if len(wantPanics) > 0 {
				c.add("C04", "panic-swallowed", "%s: a user function panicked but Parallel returned nil", who)
			}
		}
	}
	if coe && noCancel && !goexit {
		for i := range p.Tasks {
			t := &p.Tasks[i]
			if s := task[t.ID]; s == nil || s.n != 1 {
				c.add("C08", "runnable-not-run", "%s: ContinueOnError: task %d was not run exactly once", who, t.ID)
			}
		}
	}
	if fired == 0 && noCancel && x.err != nil {
		c.add("C10", "unexpected-error", "%s: nothing failed and the context is live, yet Parallel returned %v", who, x.err)
		c.add("C07", "unattributable-error", "%s: nothing failed and the context is live, yet Parallel returned %v", who, x.err)
	}
	if x.err != nil {
		ctxOK := x.ctxErrAtRet != nil && safeEq(x.err, x.ctxErrAtRet)
		entries := []error{x.err}
		if coe {
			entries = multierr.Errors(x.err)
		}
		usedE := make([]int, len(wantErrs))
		usedP := make([]int, len(wantPanics))
		ctxEntries, goexitEntries := 0, 0
		for _, e := range entries {
			hit := false
			{
				// one-to-one: several functions may have returned the very same value
				first := -1
				for i, w := range wantErrs {
					if !errors.Is(e, w) {
						continue
					}
					if first < 0 {
						first = i
					}
					if usedE[i] == 0 {
						first = i
						break
					}
				}
				if first >= 0 {
					usedE[first]++
					hit = true
				}
			}
			var pe *cff.PanicError
			if !hit && errors.As(e, &pe) {
				// one-to-one: several injected panics may be indistinguishable (runtime errors)
				first := -1
				for i, w := range wantPanics {
					if !panicEq(pe.Value, w) {
						continue
					}
					if first < 0 {
						first = i
					}
					if usedP[i] == 0 {
						first = i
						break
					}
				}
				if first >= 0 {
					usedP[first]++
					hit = true
				}
				if !hit {
					c.add("C04", "wrong-panic-value", "%s: returned PanicError carries %v, which no user function panicked with", who, pe.Value)
				}
			}
			if !hit && x.ctxErrAtRet != nil && errors.Is(e, x.ctxErrAtRet) {
				ctxEntries++
				hit = true
			}
			if !hit && e.Error() == errGoexitMsg && goexit {
				goexitEntries++
				hit = true
			}
			if !hit {
				prop, cls := "C07", "unattributable-error"
				if coe {
					prop, cls = "C08", "foreign-entry"
				}
				c.add(prop, cls, "%s: returned error contains %q, which is neither a failed user function's error/PanicError nor the context's", who, e)
			}
		}
		if coe && !ctxOK {
			for i, n := range usedE {
				if n != 1 {
					c.add("C08", "entry-count", "%s: ContinueOnError: error %q appears %d times in the returned error", who, wantErrs[i], n)
				}
			}
			for i, n := range usedP {
				if n != 1 {
					c.add("C08", "entry-count", "%s: ContinueOnError: PanicError for value %v appears %d times in the returned error", who, wantPanics[i], n)
					c.add("C04", "panic-not-reported", "%s: ContinueOnError: PanicError for value %v appears %d times in the returned error", who, wantPanics[i], n)
				}
			}
			if ctxEntries > 0 && noCancel {
				c.add("C08", "ctx-entry-without-cancel", "%s: context error reported but the context was never cancelled", who)
			}
		}
		if !coe && !ctxOK && len(wantErrs) == 0 && len(wantPanics) > 0 && !goexit {
			var pe *cff.PanicError
			if !errors.As(x.err, &pe) {
				c.add("C04", "panic-not-reported", "%s: every failure of this run was a panic, yet errors.As(err, **cff.PanicError) fails for %q", who, x.err)
			}
		}
	}
	// cancellation before the call: nothing may start
	if cancelBefore {
		if len(task) > 0 || len(elems) > 0 || len(endHook) > 0 {
			c.add("C09", "started-after-cancel:enqueued-later", "%s: the context was cancelled before Parallel was called, yet user functions were invoked", who)
		}
	}
	if cancelSeq != 0 {
		// an End function depends on every element call of its collection: if one of
		// them cancelled the context, the End function can only start afterwards
		if d.CancelMode == CancelInElem && cancelBy >= 0 && !cancelInherited {
			if eh := endHook[cancelBy]; eh != nil {
				c.add("C09", "started-after-cancel:dependent", "%s: an element call of collection %d cancelled the context (#%d), yet the End function of that collection, which depends on it, was invoked (#%d)", who, cancelBy, cancelSeq, eh.start)
			}
		}
		// all workers busy at the cancellation: whatever starts afterwards could only start afterwards
		inside := 0
		in := func(start, end int) {
			if start != 0 && start < cancelSeq && (end == 0 || end > cancelSeq) {
				inside++
			}
		}
		for _, s := range task {
			in(s.start, s.end)
		}
		for _, s := range endHook {
			in(s.start, s.end)
		}
		for _, l := range elems {
			for _, ec := range l {
				in(ec.start, ec.end)
			}
		}
		if inside >= x.limit() {
			late := func(what string, id, start int) {
				if start > cancelSeq {
					c.add("C09", "started-after-cancel:no-free-worker", "%s: all %d workers were inside user functions at the cancellation (#%d), yet %s %d was invoked afterwards (#%d)", who, x.limit(), cancelSeq, what, id, start)
				}
			}
			for id, s := range task {
				late("task", id, s.start)
			}
			for id, s := range endHook {
				late("the End function of collection", id, s.start)
			}
			for id, l := range elems {
				for _, ec := range l {
					late("an element function of collection", id, ec.start)
				}
			}
		}
	}
	// emitters
	if p.Emitters > 0 {
		for k := 0; k < p.Emitters; k++ {
			c.checkDirectiveEvents(x, who, k, p.InstrPar)
			if x.prog.AutoInstr {
				continue
			}
			for i := range p.Tasks {
				t := &p.Tasks[i]
				if !t.Instr {
					continue
				}
				s := task[t.ID]
				c.checkTaskEvents(x, who, k, fmt.Sprintf("t%d", t.ID), s != nil && s.end != 0, d.TaskOut[t.ID], false, 0, t.ID)
			}
		}
		c.checkStacksEqual(x, who, p.Emitters)
	}
}

// outcomeDigest summarises what a run computed, independently of the
// schedule where the plan makes the outcome schedule-independent: results,
// nil/non-nil, which user function the error is attributed to, and (for runs
// without failures) the multiset of invocations with their arguments.
func outcomeDigest(res *Result) uint64 {
	h := uint64(14695981039346656037)
	mixv := func(v uint64) {
		for i := 0; i < 8; i++ {
			h ^= v & 0xff
			h *= 1099511628211
			v >>= 8
		}
	}
	for _, x := range res.X {
		mixv(uint64(x.idx))
		if x.ctxBad > 0 {
			mixv(0xbadc7) // some user function did not get the directive's context
		}
		for _, v := range x.res {
			mixv(v)
		}
		if x.err == nil {
			mixv(1)
		} else {
			mixv(2)
			att := uint64(0xffff)
			var pe *cff.PanicError
			isPanic := errors.As(x.err, &pe)
			for id := 0; id < 64; id++ {
				if errors.Is(x.err, x.errOf(0, id, 0)) {
					att = uint64(id)
				}
				if isPanic && panicEq(pe.Value, x.panicVal(0, id, 0)) {
					att = uint64(id) | 0x100
				}
			}
			mixv(att)
		}
		failures := len(x.d.TaskOut) + len(x.d.PredOut)
		if failures == 0 && x.d.CancelMode == CancelNone {
			var calls []string
			for _, e := range x.events {
				if e.Kind == EvTaskStart || e.Kind == EvPredStart {
					calls = append(calls, fmt.Sprintf("%d/%d/%x", e.Kind, e.ID, e.Args))
				}
			}
			sort.Strings(calls)
			for _, cst := range calls {
				for _, b := range []byte(cst) {
					mixv(uint64(b))
				}
			}
		}
	}
	return h
}

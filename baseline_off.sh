#!/bin/bash
# Runs the repository's pinned test suite with the verif guard OFF and compares
# the set of passing tests with /root/.vp/BASELINE.json (stable_pass).
export GOFLAGS=-mod=mod GOPROXY=off GOSUMDB=off
out=$(mktemp)
trap 'rm -f "$out"' EXIT
for m in . ./internal/tests; do
  (cd /repo/$m && go test -json -vet=off -count=1 -timeout 25m ./... ) >> "$out" 2>/dev/null
done
python3 - "$out" <<'PY'
import json,sys
passed=set()
failed=set()
for l in open(sys.argv[1]):
    try: e=json.loads(l)
    except Exception: continue
    if e.get('Test') and e.get('Action') in('pass','fail'):
        (passed if e['Action']=='pass' else failed).add(e['Package']+'::'+e['Test'])
base=json.load(open('/root/.vp/BASELINE.json'))
want=set(base['stable_pass'])
missing=sorted(want-passed)
print(f"baseline: {len(want)} expected, {len(want&passed)} passed, {len(missing)} missing; failing now: {sorted(failed)}")
for m in missing: print("  MISSING", m)
sys.exit(1 if missing else 0)
PY

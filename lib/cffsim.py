"""Driver of the cffsim checks (see /verif/check)."""
import glob
import hashlib
import json
import os
import shutil
import subprocess
import sys
import tempfile
import time

VERIF = os.path.dirname(os.path.dirname(os.path.abspath(__file__)))
SIM = os.path.join(VERIF, "sim")
REPO = os.environ.get("CFFSIM_REPO", "/repo")  # the tree under test (checks always use /repo; background experiments may point elsewhere)
OUT = os.environ.get("CFFSIM_OUT", VERIF)  # where evidence/ and replays/ go (experiments against another tree write elsewhere)
GO126 = "go1.26.8"
NPROC = 16

ENV = dict(os.environ)
ENV.update(GOFLAGS="-mod=mod", GOPROXY="off", GOSUMDB="off", GOTOOLCHAIN="local")
ENV.pop("GOMAXPROCS", None)


def log(*a):
    print(*a, flush=True)


def sh(cmd, cwd=None, env=None, timeout=None):
    return subprocess.run(cmd, cwd=cwd, env=env or ENV, timeout=timeout,
                          stdout=subprocess.PIPE, stderr=subprocess.STDOUT, text=True)


def repo_tree_hash():
    out = sh(["git", "-C", REPO, "rev-parse", "HEAD"]).stdout.strip()
    diff = sh(["git", "-C", REPO, "diff", "HEAD"]).stdout
    st = sh(["git", "-C", REPO, "status", "--porcelain"]).stdout
    if not diff and not st.strip():
        return out[:12]
    h = hashlib.sha256((diff + st).encode())
    for line in st.splitlines():
        if line.startswith("??"):
            p = os.path.join(REPO, line[3:])
            if os.path.isfile(p):
                h.update(open(p, "rb").read())
    return out[:12] + "+dirty:" + h.hexdigest()[:12]


# --------------------------------------------------------------------------
# property table: which engines serve a property and with which populations

L1_POPS = {
    "C01": ["C01"] * 7 + ["C01fanin"], "C03": ["C03"] * 6 + ["C03scale"], "C05": ["C05"] * 7 + ["C05fanin"], "C06": ["C06"], "C07": ["C07"],
    "C08": ["C08"], "C09": ["C09"], "C12": ["C12"], "C19": ["C19"] * 7 + ["C19fanin"],
}
L2_PROPS = {"C01", "C02", "C03", "C04", "C05", "C06", "C07", "C08", "C09", "C10", "C11", "C12", "C15", "C18", "C19", "C20"}
ALL_PROPS = sorted(set(L1_POPS) | L2_PROPS)

SECS = {"quick": 30, "thorough": 420}
CORPUS = {"quick": (16, 12, 8), "thorough": (24, 20, 12)}  # packages, programs per package, max tasks

COMPONENTS = {
    "l1": {
        "real": ["go.uber.org/cff/scheduler (all of it, built from /repo with -tags verif)", "Go channels, select, context, goroutine creation, runtime.Goexit",
                 "testing/synctest fake clock (time.Ticker, context deadlines)"],
        "stub": ["job bodies (harness: yield k times, then ok / error / Goexit / cancel / held)", "scheduler.Emitter (recording)",
                 "the choice of which goroutine runs next and which ready select arm fires (seeded PRNG)"],
    },
    "l2": {
        "real": ["cff CLI built from /repo's working tree, run on freshly generated programs (internal/**, templates)", "the generated Flow/Parallel code",
                 "package cff (NewScheduler, EmitterStack, PanicError, adapters)", "go.uber.org/cff/scheduler (-tags verif)", "Go runtime: channels, select, context, panics, Goexit; synctest fake clock"],
        "stub": ["user functions (tasks, predicates, slice/map/End functions): harness bodies driven by the fault plan", "cff.Emitter implementations (recording)",
                 "the choice of which goroutine runs next and which ready select arm fires (seeded PRNG)"],
    },
}


def L2MOD_BUILD(tier, seed):
    npk, per, maxt = CORPUS[tier]
    return dict(seed=seed + 7, name="l2mod", genmode="modifier", kind="modifier", corpus=[max(3, npk // 2), per, maxt], modemit=True)


def load_known():
    p = os.path.join(VERIF, "known_findings.json")
    if not os.path.exists(p):
        return []
    return json.load(open(p)).get("findings", [])


def class_key(c):
    return c.split(":", 1)[0]


class Infra(Exception):
    pass


# name of build -> details of a special package that cff accepted but that does not compile
SPECIAL_FAIL = {}


# name of build -> what the tool under test rejected / what did not compile (packages dropped from that build)
DROPPED = {}


def drop_package(mod, pkg):
    shutil.rmtree(os.path.join(mod, "corpus", pkg), ignore_errors=True)
    for f in glob.glob(os.path.join(mod, "l2", "registry_%s_*gen.go" % pkg)):
        os.remove(f)


def drop_files(mod, text):
    """Removes the program files (source, output, registry entry) named in tool / compiler
    output. Returns the (package, file) pairs removed."""
    import re
    gone = []
    for base in sorted(set(re.findall(r"(prog_[0-9_]+_x)(?:_gen)?\.go", text))):
        for src in glob.glob(os.path.join(mod, "corpus", "*", base + ".go")):
            pkg = os.path.basename(os.path.dirname(src))
            for f in (src, src[:-3] + "_gen.go", os.path.join(mod, "l2", "registry_%s_%s_gen.go" % (pkg, base))):
                try:
                    os.remove(f)
                except OSError:
                    pass
            gone.append((pkg, base))
    return gone


def package_has_programs(mod, pkg):
    return bool(glob.glob(os.path.join(mod, "corpus", pkg, "prog_*_x.go")))


def copy_module(tmp, name):
    """Scratch copy of the harness module whose go.mod points at the tree under test."""
    mod = os.path.join(tmp, "mod_" + name)
    if not os.path.exists(mod):
        shutil.copytree(SIM, mod, ignore=shutil.ignore_patterns("*.test"))
        gm = os.path.join(mod, "go.mod")
        txt = open(gm).read().replace("go.uber.org/cff => /repo", "go.uber.org/cff => " + REPO)
        open(gm, "w").write(txt)
        shutil.copy(os.path.join(REPO, "go.sum"), os.path.join(mod, "go.sum"))
    return mod


def build_l1(tmp, race):
    out = os.path.join(tmp, "l1_race.test" if race else "l1.test")
    cmd = [GO126, "test", "-c", "-tags", "verif", "-o", out] + (["-race"] if race else []) + ["./l1"]
    r = sh(cmd, cwd=copy_module(tmp, "l1"))
    if r.returncode != 0:
        raise Infra("BUILD-FAILED (L1 harness against /repo working tree):\n" + r.stdout[-4000:])
    return out


def build_cff(tmp):
    out = os.path.join(tmp, "cff")
    if os.path.exists(out):
        return out
    r = sh(["go", "build", "-o", out, "./cmd/cff"], cwd=REPO)
    if r.returncode != 0:
        raise Infra("BUILD-FAILED (cff CLI from /repo working tree):\n" + r.stdout[-4000:])
    return out


def plant_stale_outputs(mod, pkgs):
    """Pre-existing output files, longer than what the tool is about to write: a regeneration
    must replace them, not write into them. (Their tail is made of comment lines; whatever
    survives of it starts in the middle of a line and no longer parses.)"""
    n = 0
    for p in pkgs:
        for f in sorted(glob.glob(os.path.join(mod, "corpus", p["name"], "*.go"))):
            if f.endswith("_gen.go") or f.endswith("_test.go"):
                continue
            try:
                size = os.path.getsize(f)
            except OSError:
                continue
            out = f[:-3] + "_gen.go"
            lines = ["//go:build !cff\n\npackage %s\n\n" % p["name"]]
            for k in range(size // 20 + 4000):
                lines.append("// output of an earlier generation, line %d\n" % k)
            open(out, "w").write("".join(lines))
            n += 1
    return n


def build_l2(tmp, race, tier, seed, name="l2", genmode="base", kind="mixed", corpus=None, plain=False, stale=False, modemit=False):
    """Generate a corpus, run the cff tool built from /repo on it, compile the harness."""
    cff = build_cff(tmp)
    mod = copy_module(tmp, name)
    npk, per, maxt = corpus or CORPUS[tier]
    r = sh(["go", "run", "./cmd/progen", "-out", mod, "-seed", str(seed), "-pkgs", str(npk), "-per", str(per), "-maxtasks", str(maxt), "-kind", kind] + (["-plainnames"] if plain else []) + (["-modemit"] if modemit else []), cwd=mod)
    if r.returncode != 0:
        raise Infra("progen failed:\n" + r.stdout[-3000:])
    pkgs = json.load(open(os.path.join(mod, "corpus", "packages.json")))
    if stale:
        plant_stale_outputs(mod, pkgs)
    # One invocation of the tool per group of packages (those generated with -auto-instrument are named
    # q.., the others p..): whatever the tool keeps from one package to the next is part of what is tested.
    def cff_cmd(auto, target):
        return [cff, "-quiet", "-genmode", genmode] + (["-auto-instrument"] if auto else []) + ["cffverif/corpus/" + target]
    procs = []
    for auto in (False, True):
        group = [p for p in pkgs if bool(p["auto_instr"]) == auto]
        if not group:
            continue
        prefix = "q" if auto else "p"
        if not all(p["name"].startswith(prefix) for p in group):
            raise Infra("corpus package names do not follow the p../q.. convention")
        procs.append((group, subprocess.Popen(cff_cmd(auto, prefix + "..."), cwd=mod, env=ENV, stdout=subprocess.PIPE, stderr=subprocess.STDOUT, text=True)))
    bad = []
    for group, pr in procs:
        out, _ = pr.communicate()
        if pr.returncode != 0:
            # which packages is it about? each one on its own (outputs are rewritten)
            alone = []
            for p in group:
                r = sh(cff_cmd(p["auto_instr"], p["name"]), cwd=mod)
                if r.returncode != 0:
                    alone.append((p["name"], r.stdout[-3000:]))
            if not alone:
                raise Infra("cff fails on the packages %s processed in one invocation, but on none of them alone:\n%s" % ([p["name"] for p in group], out[-3000:]))
            bad += alone
    DROPPED.pop(name, None)
    if bad:
        msg = "cff (built from /repo) rejected or crashed on generated programs (genmode=%s):\n" % genmode
        for n, o in bad:
            msg += "--- package %s\n%s\n" % (n, o)
        # Not a verdict on any claimed property (acceptance is C13/C14's matter), but no reason to
        # stay blind either: drop the files the tool names (else the package), run cff again on
        # what is left, run the rest, and report the trouble at the end.
        still = []
        for n, o in bad:
            gone = drop_files(mod, o)
            ok = False
            if gone and package_has_programs(mod, n):
                pinfo = [p for p in pkgs if p["name"] == n][0]
                cmd = [cff, "-quiet", "-genmode", genmode] + (["-auto-instrument"] if pinfo["auto_instr"] else []) + ["cffverif/corpus/" + n]
                ok = sh(cmd, cwd=mod).returncode == 0
            if not ok:
                drop_package(mod, n)
                still.append(n)
        pkgs = [p for p in pkgs if p["name"] not in still]
        if not [p for p in pkgs if not p.get("special")]:
            raise Infra(msg)
        DROPPED[name] = msg
    # packages holding shapes that cff accepts but whose output may not compile are
    # compiled on their own first; a failure is a C10 finding, not a build failure
    SPECIAL_FAIL.pop(name, None)
    for p in pkgs:
        if not p.get("special"):
            continue
        r = sh([GO126, "build", "./corpus/" + p["name"]], cwd=mod)
        if r.returncode != 0:
            srcs = {}
            for f in sorted(glob.glob(os.path.join(mod, "corpus", p["name"], "prog_*.go"))):
                if not f.endswith("_gen.go"):
                    srcs[os.path.basename(f)] = open(f).read()
            SPECIAL_FAIL[name] = dict(package=p["name"], compile_output=r.stdout[-3000:], sources=srcs, genmode=genmode)
            drop_package(mod, p["name"])
    out = os.path.join(tmp, name + ("_race" if race else "") + ".test")
    cmd = [GO126, "test", "-c", "-tags", "verif", "-o", out] + (["-race"] if race else []) + ["./l2"]
    r = sh(cmd, cwd=mod)
    if r.returncode != 0:
        # generated code of some package does not compile: same policy as above
        import re
        first = r.stdout
        note = ""
        for attempt in range(12):
            # the compiler stops after ten errors per package: repeat until what is left builds
            gone = drop_files(mod, r.stdout)
            if "registry_pse_gen.go" in r.stdout and os.path.isdir(os.path.join(mod, "corpus", "pse")):
                # the package of special shapes has one registry file for all its programs
                drop_package(mod, "pse")
                pkgs[:] = [p for p in pkgs if p["name"] != "pse"]
                gone = gone + [("pse", "*")]
            if not gone:
                failing = sorted(set(re.findall(r"corpus/([pq]\d\d)/", r.stdout)))
                for n in failing:
                    drop_package(mod, n)
                if not failing:
                    break
                note += " packages %s" % failing
            else:
                note += " files %s" % [b for _, b in gone]
            for p in list(pkgs):
                if not p.get("special") and not package_has_programs(mod, p["name"]):
                    drop_package(mod, p["name"])
                    pkgs.remove(p)
            if not [p for p in pkgs if not p.get("special") and package_has_programs(mod, p["name"])]:
                break
            r = sh(cmd, cwd=mod)
            if r.returncode == 0:
                break
        if r.returncode != 0:
            raise Infra("BUILD-FAILED (generated code or L2 harness does not compile, genmode=%s):\n%s" % (genmode, first[-6000:]))
        DROPPED[name] = DROPPED.get(name, "") + "BUILD-FAILED: output of cff does not compile (genmode=%s); dropped%s:\n%s" % (genmode, note, first[-4000:])
    nprogs = int(open(os.path.join(mod, "corpus", "nprogs")).read())
    return out, mod, nprogs


def run_procs(jobs, timeout):
    procs = []
    for argv, env, logpath in jobs:
        f = open(logpath, "w")
        procs.append((subprocess.Popen(argv, env=env, stdout=f, stderr=subprocess.STDOUT), f))
    rcs = []
    deadline = time.time() + timeout
    for p, f in procs:
        try:
            rcs.append(p.wait(timeout=max(1, deadline - time.time())))
        except subprocess.TimeoutExpired:
            p.kill()
            p.wait()
            rcs.append(-9)
        f.close()
    return rcs


def last_begin(path):
    last = None
    try:
        for line in open(path):
            if line.startswith("BEGIN "):
                last = line[6:]
    except OSError:
        pass
    return json.loads(last) if last else None


def run_replay(binary, path, race=False, verbose=False, timeout=900):
    env = dict(ENV)
    if race:
        env["GORACE"] = "halt_on_error=1 exitcode=66"
    argv = [binary, "-test.run", "TestSim", "-test.timeout", "0", "-sim.replay", path]
    if verbose:
        argv.append("-sim.v")
    r = sh(argv, env=env, timeout=timeout)
    return r.returncode, r.stdout


GMPS = [16, 1, 2, 4, 8, 16, 3, 40, 6, 16, 12, 64, 5, 16, 33, 80]  # GOMAXPROCS per process (values above the core count are legal)


def check(prop, tier, seed):
    t0 = time.time()
    tmp = tempfile.mkdtemp(prefix="cffsim_")
    try:
        if prop == "C20":
            return check_c20(tier, seed, tmp, t0)
        return _check(prop, tier, seed, tmp, t0)
    except Infra as e:
        log("INFRASTRUCTURE: " + str(e))
        return 2
    finally:
        shutil.rmtree(tmp, ignore_errors=True)


def _check(prop, tier, seed, tmp, t0):
    race = prop == "C12"
    engines = []
    if prop in L1_POPS:
        engines.append("l1")
    if prop in L2_PROPS:
        engines.append("l2")
    binaries = {}
    nprogs = 0
    if "l1" in engines:
        binaries["l1"] = build_l1(tmp, race)
    name_viol = []
    if "l2" in engines:
        try:
            binaries["l2"], _, nprogs = build_l2(tmp, race, tier, seed)
            if prop == "C15" and DROPPED.get("l2"):
                raise Infra(DROPPED["l2"])
        except Infra as e:
            if prop != "C15":
                raise
            # C15 quantifies over user identifiers named like generated ones. If the corpus
            # only builds once those names are replaced by neutral ones, the names are the cause.
            binaries["l2"], _, nprogs = build_l2(tmp, race, tier, seed, name="l2plain", plain=True)
            if DROPPED.get("l2plain"):
                raise Infra("also with neutral variable names: " + DROPPED["l2plain"])
            DROPPED.pop("l2", None)
            os.makedirs(os.path.join(OUT, "replays"), exist_ok=True)
            path = os.path.join(OUT, "replays", "C15_l2_names-break-output_s%d.json" % seed)
            json.dump(dict(property="C15", engine="l2-compile-names", corpus=dict(seed=seed, tier=tier), detail=str(e)[-4000:],
                           message="the corpus builds when user variables have neutral names, but not when they are named like identifiers the generated code introduces",
                           **{"class": "generated-identifier-captures-user-name"}), open(path, "w"), indent=1)
            name_viol.append(("generated-identifier-captures-user-name", "programs whose variables are called like generated identifiers (sched, emitter, tasks, v1, ...) are accepted by cff but the output does not compile; the same programs with neutral names do: " + str(e)[-500:].replace("\n", " | "), path))
    if prop == "C18":
        # the emitter protocol is also promised for modifier-mode output (flows of the modifier subset,
        # with cff.WithEmitter / cff.InstrumentFlow / cff.Instrument): a second corpus, generated in that mode
        npk, per, maxt = CORPUS[tier]
        binaries["l2mod"] = build_l2(tmp, race, tier, **L2MOD_BUILD(tier, seed))[0]
        COMPONENTS.setdefault("l2mod", COMPONENTS["l2"])
    secs = SECS[tier]
    replaydir = os.path.join(OUT, "replays")
    os.makedirs(replaydir, exist_ok=True)
    jobs, meta = [], []
    for i in range(NPROC):
        eng = engines[i % len(engines)]
        if "l2mod" in binaries and i % 4 == 3:
            eng = "l2mod"
        pop = prop
        if eng == "l2" and prop == "C03" and i == 5:
            pop = "C03scale"
        if eng == "l2" and prop == "C10" and i in (5, 11):
            pop = "C10scale" if i == 5 else "C10scale8"
        if eng == "l2" and prop == "C05" and i == 5:
            pop = "C05scale"  # a fault at the start of a collection of more than 2^16 elements
        if eng == "l2" and prop == "C19" and i == 5:
            pop = "C19scale"  # state reports while more than 2^16 jobs are outstanding
        if eng == "l2" and prop in ("C09", "C06") and i == 5:
            pop = prop + "scale"  # collections of thousands of elements whose context ends early
        report = None
        if eng == "l2" and prop in ("C08", "C04") and i == 5:
            pop, report = "C08scale", prop  # thousands of failures (errors and panics) in one ContinueOnError directive
        if eng == "l2" and prop == "C01" and i == 5:
            pop, report = "C10scale", "C01"  # a job with more than 2^16 dependencies (End function of a large collection)
        if eng == "l1":
            pops = L1_POPS[prop]
            pop = pops[(i // len(engines)) % len(pops)]
        env = dict(ENV)
        env["GOMAXPROCS"] = str(GMPS[i])
        if race:
            env["GORACE"] = "halt_on_error=1 exitcode=66 log_path=%s" % os.path.join(tmp, "race_%d" % i)
        argv = [binaries[eng], "-test.run", "TestSim", "-test.timeout", "0", "-sim.prop", pop, "-sim.tier", tier, "-sim.seed", str(seed),
                "-sim.proc", str(i), "-sim.secs", str(secs), "-sim.out", os.path.join(tmp, "out_%d.json" % i),
                "-sim.replaydir", replaydir, "-sim.beginlog", os.path.join(tmp, "begin_%d" % i)]
        if report:
            argv += ["-sim.report", report]
        if eng == "l2mod":
            argv += ["-sim.build", json.dumps(L2MOD_BUILD(tier, seed))]
        jobs.append((argv, env, os.path.join(tmp, "log_%d" % i)))
        meta.append(eng)
    rcs = run_procs(jobs, secs * 4 + 900)
    sums, crashes = [], []
    transient = []
    plain_cache = {}

    def plain_binary(eng):
        if eng not in plain_cache:
            if eng == "l1":
                plain_cache[eng] = build_l1(tmp, False)
            else:
                plain_cache[eng] = build_l2(tmp, False, tier, seed, name="l2norace")[0]
        return plain_cache[eng]

    def race_report(i):
        txt = ""
        for rp in glob.glob(os.path.join(tmp, "race_%d*" % i)) + [os.path.join(tmp, "log_%d" % i)]:
            try:
                txt += open(rp).read()
            except OSError:
                pass
        return txt

    for i, rc in enumerate(rcs):
        p = os.path.join(tmp, "out_%d.json" % i)
        if rc == 66 and "DATA RACE" not in race_report(i):
            # exit status of the race runtime without a race report: the runtime itself gave up
            # (seen: "ThreadSanitizer: CHECK failed" under load). Not a verdict; same treatment as any other death.
            rc = rcs[i] = 67
            for rp in glob.glob(os.path.join(tmp, "race_%d*" % i)):
                os.remove(rp)
        skipped = []
        for attempt in range(4):
            if (rc == 0 and os.path.exists(p)) or rc in (66, -9):
                break
            # A process death that is not a race report: first see whether the run it died in
            # reproduces the death; if not, it is not a property of that execution (seen: the
            # race runtime segfaulting under load). Re-run the whole batch of that process once.
            desc = last_begin(os.path.join(tmp, "begin_%d" % i))
            reproduced = False
            if desc is not None:
                rpath = os.path.join(tmp, "crashprobe_%d.json" % i)
                json.dump({"property": prop, "class": "process-crash", "engine": meta[i], "from_seed": True, "desc": desc}, open(rpath, "w"))
                rc2, out2 = run_replay(binaries[meta[i]], rpath, race)
                reproduced = rc2 not in (0, 66)
                if reproduced and race:
                    # The same execution in a build without the race detector tells whose death it is:
                    # seen with go1.26.8, a SIGSEGV inside the race runtime (__tsan::SlotLock) when a
                    # select runs a due ticker of a synctest bubble. Process survival is C04's clause and
                    # is judged in plain builds; here such a run is skipped and reported.
                    plain = plain_binary(meta[i])
                    rc3, _ = run_replay(plain, rpath, False)
                    if rc3 == 0:
                        skipped.append(int(desc.get("run", -1)))
                        reproduced = False
            if reproduced:
                break
            if race and desc is not None and int(desc.get("run", -1)) not in skipped:
                # The death did not reproduce. When the log shows the race runtime's own crash (it is
                # timing dependent), do not repeat the batch: go on behind the run it happened in.
                try:
                    died = open(os.path.join(tmp, "log_%d" % i)).read()
                except OSError:
                    died = ""
                if "maybeRunChan" in died or "ThreadSanitizer: CHECK failed" in died or "__tsan" in died:
                    skipped.append(int(desc.get("run", -1)))
            shutil.copy(os.path.join(tmp, "log_%d" % i), os.path.join(tmp, "log_%d.first" % i))
            argv, env_i, lp = jobs[i]
            if skipped:
                # go on behind the run the race runtime died in (runs are seeded independently), for half the time
                argv = [a for a in argv if not a.startswith("-sim.skip=") and not a.startswith("-sim.from=")] + ["-sim.from=%d" % (max(skipped) + 1)]
                k = argv.index("-sim.secs")
                argv[k + 1] = str(max(30, secs // 2))
                jobs[i] = (argv, env_i, lp)
            rc_before = rc
            rc = run_procs([jobs[i]], secs * 4 + 900)[0]
            if rc == 66 and "DATA RACE" not in race_report(i):
                rc = 67
            transient.append("process %d (%s) died (rc=%s) in a run that %s; its batch was re-run%s (rc=%s)" % (
                i, meta[i], rc_before, "dies only in the race-detector build (race runtime), not in the plain build" if skipped else "does not reproduce the death",
                " from the run after %s on" % skipped if skipped else "", rc))
        if rc == 0 and os.path.exists(p):
            s = json.load(open(p))
            s["engine"] = meta[i]
            sums.append(s)
            continue
        desc = last_begin(os.path.join(tmp, "begin_%d" % i))
        logtxt = open(os.path.join(tmp, "log_%d" % i)).read()
        racetxt = ""
        for rp in glob.glob(os.path.join(tmp, "race_%d*" % i)):
            racetxt += open(rp).read()
        crashes.append(dict(proc=i, rc=rc, desc=desc, log=logtxt[-6000:], race=racetxt[-8000:], engine=meta[i]))
    extra = {}
    extra_viol = list(name_viol)
    if "l2" in engines:
        extra["programs"] = nprogs
        extra["programs_generated_compiled"] = nprogs
        sf = SPECIAL_FAIL.get("l2")
        if sf and prop == "C10":
            path = os.path.join(replaydir, "C10_l2_accepted-but-does-not-compile_s%d.json" % seed)
            json.dump(dict(property="C10", engine="l2-compile", corpus=dict(seed=seed, tier=tier), message="cff accepted Parallel programs (Slice function without index parameter + SliceEnd) but its output does not compile", **sf,
                           **{"class": "accepted-but-does-not-compile"}), open(path, "w"), indent=1)
            extra_viol.append(("accepted-but-does-not-compile", "cff exited 0 for Slice(fn without index)+SliceEnd programs, but the generated package does not compile: " + sf["compile_output"][:300].replace("\n", " | "), path))
        extra["special_packages_failed"] = bool(sf)
    if transient:
        extra["transient_process_deaths"] = transient
    return finish(prop, tier, seed, t0, sums, crashes, binaries, race, engines, extra, extra_viol)


def finish(prop, tier, seed, t0, sums, crashes, binaries, race, engines, extra_cov=None, extra_viol=None, extra_infra=None):
    known = load_known()
    replaydir = os.path.join(OUT, "replays")
    infra = list(extra_infra or [])
    for bname, msg in sorted(DROPPED.items()):
        infra.append("build %s ran without the packages the tool under test rejected or broke: %s" % (bname, msg[-3000:]))
    confirmed = list(extra_viol or [])   # (class, msg, path)
    for c in crashes:
        eng = c["engine"]
        if c["rc"] == -9:
            infra.append("process %d hit the watchdog" % c["proc"])
            continue
        if c["desc"] is None:
            infra.append("process %d died (rc=%s) before its first run:\n%s" % (c["proc"], c["rc"], c["log"][-1500:]))
            continue
        is_race = c["rc"] == 66 and race
        if race and not is_race:
            # C12 is decided by race reports; whether a process survives is C04's clause, judged in plain builds
            infra.append("process %d (%s, race-detector build) died (rc=%s) without a race report; log tail:\n%s" % (c["proc"], eng, c["rc"], c["log"][-1500:]))
            continue
        cls = "data-race" if is_race else "process-crash"
        if any(c0 == cls for c0, _, _ in confirmed):
            continue
        rp = dict(property=prop, message=("race detector report:\n" + c["race"]) if is_race else ("process died:\n" + c["log"][-3000:]),
                  engine=eng, from_seed=True, desc=c["desc"], found=dict(seed=seed, proc=c["proc"]))
        rp["class"] = cls
        path = os.path.join(replaydir, "%s_%s_%s_s%d_p%d.json" % (prop, eng, cls, seed, c["proc"]))
        json.dump(rp, open(path, "w"), indent=1)
        if eng == "l2":
            attach_programs(path, binaries)
        rc, out = run_replay(binaries[eng], path, race)
        if (is_race and rc == 66) or (not is_race and rc not in (0, 66) and "REPRODUCED" not in out):
            confirmed.append((cls, rp["message"][:1200].replace("\n", " | "), path))
        else:
            infra.append("process %d (%s) died (rc=%s) but the re-run from its BEGIN line did not (rc=%s); log tail:\n%s\n%s" % (c["proc"], eng, c["rc"], rc, c["log"][-2500:], c["race"][-1500:]))
    seen = set()
    for s in sums:
        for v in s.get("violations") or []:
            k = class_key(v["class"])
            if k in seen:
                continue
            rc, out = run_replay(binaries[s["engine"]], v["replay"], race)
            if "REPRODUCED property=%s" % v["prop"] in out and "NOT-REPRODUCED" not in out:
                seen.add(k)
                confirmed.append((v["class"], v["msg"], v["replay"]))
            else:
                infra.append("violation %s/%s did not reproduce in a fresh process: %s" % (v["prop"], v["class"], out[-300:]))
    runs = sum(s["runs"] for s in sums)
    steps = sum(s["steps"] for s in sums)
    inval, faults, probes, pols, other, progs = {}, {}, {}, {}, {}, {}
    per_engine = {}
    for s in sums:
        for d, src in ((inval, "invalid"), (faults, "faults_fired"), (probes, "probes"), (pols, "policies"), (other, "other_property_violations"), (progs, "programs_executed")):
            for k, n in (s.get(src) or {}).items():
                d[k] = d.get(k, 0) + n
        pe = per_engine.setdefault(s["engine"], dict(runs=0, steps=0, processes=0))
        pe["runs"] += s["runs"]
        pe["steps"] += s["steps"]
        pe["processes"] += 1
    inter, states = set(), set()
    for s in sums:
        inter.update((s["engine"], h) for h in s.get("interleaving_hashes") or [])
        states.update((s["engine"], h) for h in s.get("state_hashes") or [])
    samples = []
    for eng in engines:
        n = 0
        for s in sums:
            if s["engine"] != eng:
                continue
            for x in s.get("samples") or []:
                if n < 1:
                    samples.append(x)
                    n += 1
    ninval = sum(inval.values())
    if runs and ninval > 0.01 * runs:
        infra.append("invalid runs %d of %d exceed 1%%: %s" % (ninval, runs, inval))
    if not sums:
        infra.append("no process produced a summary")
    wall = time.time() - t0
    violations, knowns = [], []
    for cls, msg, path in confirmed:
        hit = None
        for k in known:
            if k.get("status") == "open" and k.get("property") == prop and k.get("class") == class_key(cls) and (not k.get("match") or k["match"] in msg):
                hit = k
        if hit:
            knowns.append((hit, msg, path))
        else:
            violations.append((cls, msg, path))
    cov = dict(
        evaluations=runs,
        distinct_nontrivial=len(inter),
        rule=("one evaluation = one simulated execution of the real code (workload or program, fault plan and schedule all drawn from VERIF_SEED). "
              "distinct_nontrivial counts distinct hashes of (descriptor incl. fault plan, full step trace incl. select arms) over runs "
              "in which the controller had at least one decision with >= 2 candidates; measured by the run binaries, merged over processes."),
        samples=samples or [dict(note="no sample met the size filter", runs=runs)],
        steps=steps,
        simulated_time_s=round(steps * (1 << 20) / 1e9, 3),
        runs_per_hour=int(runs / max(wall, 1e-9) * 3600),
        seeds_per_hour=int(runs / max(wall, 1e-9) * 3600),
        distinct_abstract_states=len(states),
        abstract_state_measure="multiset of (goroutine kind, hook site, parked?) + clamped channel lengths and loop counters + closed flags, after every step; each process's set saturates at 250000, so this is a lower bound",
        fault_kinds_fired=faults,
        reach_probes=probes,
        policies=pols,
        invalid_runs=inval,
        violations_of_other_properties_seen=other,
        processes=len(sums),
        per_engine=per_engine,
        engines=engines,
        components={e: COMPONENTS[e] for e in engines},
        toolchain=dict(harness=GO126, generator="go (PATH, repository toolchain)"),
        repo_tree=repo_tree_hash(),
        race_detector=bool(race),
        known_findings_matched=[k[0].get("id") for k in knowns],
        infrastructure_notes=infra,
    )
    if progs:
        cov["distinct_programs_executed"] = len(progs)
    if extra_cov:
        cov.update(extra_cov)
    ev = dict(property_id=prop, tier=tier, seed=seed, level="exploration", coverage=cov,
              assumptions=["interleavings are explored at hook granularity (every channel operation, goroutine start/exit, user-function boundary); finer interleavings are left to the race detector (C12)",
                           "sampling, not enumeration: the property held on the runs explored",
                           "go1.26.8 testing/synctest semantics (quiescence detection, fake clock)"],
              wall_s=round(wall, 2), violations=len(violations))
    os.makedirs(os.path.join(OUT, "evidence"), exist_ok=True)
    json.dump(ev, open(os.path.join(OUT, "evidence", prop + ".json"), "w"), indent=1)
    log("%s %s seed=%d: runs=%d steps=%d distinct_interleavings=%d states=%d wall=%.0fs engines=%s faults=%s" % (prop, tier, seed, runs, steps, len(inter), len(states), wall, per_engine, faults))
    for k, msg, path in knowns:
        log("KNOWN-FINDING: property=%s %s (%s) replay=%s" % (prop, k.get("what", k.get("class")), msg[:200], path))
    for cls, msg, path in violations:
        log("VIOLATION property=%s replay=%s" % (prop, path))
        log("  class=%s: %s" % (cls, msg[:1500]))
    if violations:
        return 1
    if infra:
        for i in infra:
            log("INFRASTRUCTURE: " + i)
        return 2
    return 0


def attach_programs(path, binaries):
    pass


# --------------------------------------------------------------------------
# C20: generation modes agree (differential)

def check_c20(tier, seed, tmp, t0):
    secs = SECS[tier]
    npk, per, maxt = CORPUS[tier]
    base, basemod, n1 = build_l2(tmp, False, tier, seed, name="base", genmode="base", corpus=(max(2, npk // 2), per, maxt), stale=True)
    mbase, _, n2 = build_l2(tmp, False, tier, seed + 1, name="mbase", genmode="base", kind="modifier", corpus=(max(2, npk // 2), per, maxt), stale=True)
    for b in ("base", "mbase"):
        if DROPPED.get(b):
            # the reference build itself lost programs: nothing to compare against
            raise Infra(DROPPED[b])
    replaydir = os.path.join(OUT, "replays")
    os.makedirs(replaydir, exist_ok=True)
    build_viol = []
    smap = mmod = None
    for tag, gm, kind, sd in (("smap", "source-map", "mixed", seed), ("mod", "modifier", "modifier", seed + 1)):
        try:
            b, bmod, _ = build_l2(tmp, False, tier, sd, name="m" + tag, genmode=gm, kind=kind, corpus=(max(2, npk // 2), per, maxt), stale=True)
            if DROPPED.get("m" + tag):
                # programs that build in base mode were rejected, or their output does not compile, in this mode
                # (and the two corpora no longer line up run by run)
                raise Infra(DROPPED.pop("m" + tag))
            if tag == "smap":
                smap = b
                # the textual clause: source-map output is base output up to comments and line directives
                r = sh(["go", "run", "./cmd/astdiff", basemod, bmod], cwd=basemod)
                textual = r.stdout.strip().splitlines()[-1] if r.stdout.strip() else "no output"
                if r.returncode != 0:
                    path = os.path.join(replaydir, "C20_smap_text_s%d.json" % seed)
                    json.dump(dict(property="C20", engine="l2-differential", pair=tag, seed=seed, tier=tier, message="source-map output differs from base output in more than comments", detail=r.stdout[-4000:],
                                   **{"class": "modes-differ-textually:smap"}), open(path, "w"), indent=1)
                    build_viol.append(("modes-differ-textually:smap", "generated files differ between -genmode base and -genmode source-map beyond comments and line directives: " + r.stdout[:600].replace("\n", " | "), path))
            else:
                mmod = b
        except Infra as e:
            # the same corpus builds in base mode (above): the difference is the mode's
            path = os.path.join(replaydir, "C20_%s_build_s%d.json" % (tag, seed))
            json.dump(dict(property="C20", engine="l2-differential", pair=tag, seed=seed, tier=tier, message="corpus builds in base mode but not in %s mode" % gm, detail=str(e)[-4000:],
                           **{"class": "mode-output-does-not-build:" + tag}), open(path, "w"), indent=1)
            build_viol.append(("mode-output-does-not-build:" + tag, "the corpus is accepted and compiles in base mode, but in -genmode %s cff fails or its output does not compile: %s" % (gm, str(e)[-600:].replace("\n", " | ")), path))
    nruns = 1500 if tier == "quick" else 40000
    jobs = []
    textual = locals().get("textual", "not compared")
    pairs = [p for p in (("smap", base, smap, "C20"), ("mod", mbase, mmod, "C20mod")) if p[2] is not None]
    per_pair = NPROC // 4
    for tag, a, b, pop in pairs:
        for side, binary in (("a", a), ("b", b)):
            for i in range(per_pair):
                env = dict(ENV)
                argv = [binary, "-test.run", "TestSim", "-test.timeout", "0", "-sim.prop", pop, "-sim.tier", tier, "-sim.seed", str(seed), "-sim.proc", str(i),
                        "-sim.runs", str(nruns), "-sim.secs", str(secs * 3), "-sim.out", os.path.join(tmp, "out_%s_%s_%d.json" % (tag, side, i)),
                        "-sim.hashlog", os.path.join(tmp, "hash_%s_%s_%d" % (tag, side, i)), "-sim.beginlog", os.path.join(tmp, "begin_%s_%s_%d" % (tag, side, i))]
                jobs.append((argv, env, os.path.join(tmp, "log_%s_%s_%d" % (tag, side, i))))
    rcs = run_procs(jobs, secs * 6 + 900)
    infra, viol = [], list(build_viol)
    if any(rcs):
        # jobs are laid out pair by pair, side a (base) then side b (the mode), per_pair processes each
        for k, ((argv, env, lp), rc) in enumerate(zip(jobs, rcs)):
            if not rc:
                continue
            tag = pairs[k // (2 * per_pair)][0]
            side_b = (k // per_pair) % 2 == 1
            tail = open(lp).read()[-800:]
            if side_b and rcs[k - per_pair] == 0 and rc != -9:
                # The process running the mode's output died while the process running the same programs
                # generated in base mode went through the same runs. Once more, to see that it is this
                # output and not the machine.
                rc2 = run_procs([(argv, env, lp + ".again")], secs * 6 + 900)[0]
                if rc2 not in (0, -9):
                    i = k % per_pair
                    path = os.path.join(replaydir, "C20_%s_died_s%d_p%d.json" % (tag, seed, i))
                    json.dump(dict(property="C20", engine="l2-differential", pair=tag, seed=seed, proc=i, tier=tier, last_run_begun=last_begin(os.path.join(tmp, "begin_%s_b_%d" % (tag, i))),
                                   message="the process running -genmode %s output died (twice), the one running base output did not" % ("source-map" if tag == "smap" else "modifier"), detail=tail,
                                   **{"class": "mode-process-died:" + tag}), open(path, "w"), indent=1)
                    viol.append(("mode-process-died:" + tag, "same programs, same runs: the process running the %s output died (rc=%s, reproduced), the one running base output completed: %s" % (tag, rc, tail[-400:].replace("\n", " | ")), path))
                    continue
            infra.append("process failed rc=%s: %s" % (rc, tail))
    compared, differ_trace = 0, 0
    sums = []
    samples = []
    for tag, a, b, pop in pairs:
        for i in range(per_pair):
            try:
                la = open(os.path.join(tmp, "hash_%s_a_%d" % (tag, i))).read().splitlines()
                lb = open(os.path.join(tmp, "hash_%s_b_%d" % (tag, i))).read().splitlines()
            except OSError:
                continue
            for x, y in zip(la, lb):
                fa, fb = x.split(), y.split()
                compared += 1
                same_trace = fa[1] == fb[1] and fa[2] == fb[2]
                same_out = fa[3] == fb[3]
                if not same_trace:
                    differ_trace += 1
                bad = (tag == "smap" and not (same_trace and same_out)) or (tag == "mod" and not same_out)
                if bad and len(viol) < 3:
                    what = "source-map output behaves differently from base output" if tag == "smap" else "modifier output disagrees with base output"
                    run = int(fa[0])
                    path = os.path.join(replaydir, "C20_%s_s%d_p%d_r%d.json" % (tag, seed, i, run))
                    json.dump(dict(property="C20", engine="l2-differential", pair=tag, seed=seed, proc=i, run=run, base_line=x, other_line=y, population=pop,
                                   corpus_seed=seed if tag == "smap" else seed + 1, tier=tier, message=what), open(path, "w"), indent=1)
                    viol.append(("modes-disagree:" + tag, "%s: run %d of process %d: base [trace=%s steps=%s outcome=%s] vs %s [trace=%s steps=%s outcome=%s]" % (what, run, i, fa[1], fa[2], fa[3], tag, fb[1], fb[2], fb[3]), path))
                elif len(samples) < 2 and run_ok(fa):
                    samples.append(dict(pair=tag, run=int(fa[0]), base=x, other=y))
    for p in glob.glob(os.path.join(tmp, "out_*.json")):
        s = json.load(open(p))
        s["engine"] = "l2"
        s["violations"] = []
        sums.append(s)
    extra = dict(programs=n1 + n2, runs_compared_pairwise=compared, pairs_with_different_trace=differ_trace, disagreements_checked=compared,
                 differential="same corpus compiled with cff -genmode base / source-map (trace hash, steps and outcome digest must agree run by run) and, for the modifier-supported subset, base / modifier (outcome digest: results, nil/non-nil, failing task, invocation multiset)",
                 comparison_samples=samples, textual_comparison_base_vs_source_map=textual,
                 pre_existing_outputs="every output path held a longer file from an 'earlier generation' before cff ran, in all modes")
    if compared == 0 and not build_viol:
        infra.append("nothing was compared")
    return finish("C20", tier, seed, t0, sums, [], {}, False, ["l2"], extra, viol, infra)


def run_ok(fields):
    return len(fields) >= 4


# --------------------------------------------------------------------------

def cmd_replay(path):
    rp = json.load(open(path))
    tmp = tempfile.mkdtemp(prefix="cffsim_")
    try:
        eng = rp.get("engine", "l1")
        race = rp.get("class") == "data-race"
        if eng == "l2-differential":
            log("differential finding; re-run ./check C20 with VERIF_SEED=%s to reproduce: %s" % (rp.get("seed"), rp.get("message")))
            return check("C20", rp.get("tier", "quick"), int(rp.get("seed", 1)))
        if eng == "l2-compile-names":
            c = rp.get("corpus") or {}
            try:
                build_l2(tmp, False, c.get("tier", "quick"), int(c.get("seed", 1)))
                log("NOT-REPRODUCED: the corpus with colliding names builds")
                return 0
            except Infra as e:
                build_l2(tmp, False, c.get("tier", "quick"), int(c.get("seed", 1)), name="l2plain", plain=True)
                log("REPRODUCED property=C15 class=%s: %s" % (rp["class"], str(e)[-1500:]))
                log("VIOLATION property=C15 replay=%s" % path)
                return 1
        if eng == "l2-compile":
            c = rp.get("corpus") or {}
            build_l2(tmp, False, c.get("tier", "quick"), int(c.get("seed", 1)))
            sf = SPECIAL_FAIL.get("l2")
            if sf:
                log("REPRODUCED property=%s class=%s: %s" % (rp["property"], rp["class"], sf["compile_output"]))
                log("VIOLATION property=%s replay=%s" % (rp["property"], path))
                return 1
            log("NOT-REPRODUCED: the special package compiles")
            return 0
        if eng == "l1":
            binary = build_l1(tmp, race)
        else:
            c = rp.get("corpus") or {}
            if c.get("build"):
                kw = dict(c["build"])
                binary, _, _ = build_l2(tmp, race, c.get("tier", "quick"), **kw)
            else:
                binary, _, _ = build_l2(tmp, race, c.get("tier", "quick"), int(c.get("seed", 1)))
        rc, out = run_replay(binary, path, race, verbose=True)
        log(out[-20000:])
        if ("REPRODUCED property=" in out and "NOT-REPRODUCED" not in out) or rc != 0:
            log("VIOLATION property=%s replay=%s" % (rp["property"], path))
            return 1
        return 0
    except Infra as e:
        log("INFRASTRUCTURE: " + str(e))
        return 2
    finally:
        shutil.rmtree(tmp, ignore_errors=True)


def selftest():
    tmp = tempfile.mkdtemp(prefix="cffsim_")
    try:
        ok = True
        for eng in ("l1", "l2"):
            for race in (False, True):
                if eng == "l1":
                    binary = build_l1(tmp, race)
                else:
                    binary, mod, _ = build_l2(tmp, race, "quick", 77, name="st%d" % race, corpus=(3, 16, 8))
                jobs = []
                n = (250 if race else 600) if eng == "l1" else (120 if race else 300)
                for i, g in enumerate([1, 4, 16, 1, 4, 16]):
                    env = dict(ENV)
                    env["GOMAXPROCS"] = str(g)
                    if race:
                        env["GORACE"] = "halt_on_error=1 exitcode=66"
                    if i >= 3:
                        env["GOGC"] = "1"  # collect all the time: nothing may hinge on addresses or on when memory is reused
                    jobs.append(([binary, "-test.run", "TestSim", "-test.timeout", "0", "-sim.selftest", str(n), "-sim.seed", "77",
                                  "-sim.hashlog", os.path.join(tmp, "h_%s_%d_%d" % (eng, race, i))], env, os.path.join(tmp, "st_%s_%d_%d" % (eng, race, i))))
                rcs = run_procs(jobs, 1800)
                logs = []
                for i in range(6):
                    try:
                        logs.append(open(os.path.join(tmp, "h_%s_%d_%d" % (eng, race, i))).read())
                    except OSError:
                        logs.append("missing %d" % i)
                # processes with equal GOMAXPROCS must agree; for L1 all must agree (limits are pinned)
                same = all(l == logs[0] for l in logs) if eng == "l1" else (logs[0] == logs[3] and logs[1] == logs[4] and logs[2] == logs[5])
                same = same and len(logs[0].splitlines()) == n
                log("selftest %s race=%s: rcs=%s, %d runs x 6 processes (GOMAXPROCS 1,4,16; three of them with GOGC=1), each run executed twice from its seed and once from its recorded choices; trace logs identical=%s" % (eng, race, rcs, n, same))
                if not same or any(rcs):
                    ok = False
                    for i in range(6):
                        log(open(os.path.join(tmp, "st_%s_%d_%d" % (eng, race, i))).read()[-800:])
        return 0 if ok else 2
    except Infra as e:
        log("INFRASTRUCTURE: " + str(e))
        return 2
    finally:
        shutil.rmtree(tmp, ignore_errors=True)


def main(argv):
    if len(argv) < 2:
        print(__doc__)
        return 2
    a = argv[1]
    if a == "replay":
        return cmd_replay(argv[2])
    if a in ("selftest", "setup"):
        return selftest()
    prop = a
    if prop not in ALL_PROPS:
        log("unknown property " + prop)
        return 2
    tier = argv[2] if len(argv) > 2 else os.environ.get("VERIF_TIER", "quick")
    seed = int(os.environ.get("VERIF_SEED", "1") or 1)
    return check(prop, tier, seed)
